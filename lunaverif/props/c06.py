"""C06 — SETUP requests are decoded exactly and survive earlier corrupted packets."""
from amaranth import Elaboratable, Module, Signal
from hypothesis import strategies as st

from lunaverif.core import Sub, Result, fail
from lunaverif.simkit import CycleHarness
from lunaverif.gen import long_lists, weighted
from lunaverif.bfm import utmi_rx, g1_rx as rx
from lunaverif.ref import usb2

PROPERTY = "C06"
ASSUMPTIONS = [
    "UTMI receive soundness (DESIGN.md §3); rx_active low >= 2 cycles between packets at high speed and >= 12 cycles at "
    "full speed (2 FS bit times = 10 cycles at 60 MHz, plus SYNC detection)",
    "legal host: SETUP tokens addressed to the device go to endpoint 0 only; the standalone decoder's address is 0; "
    "sub `wired`: the device address (0..127, what SET_ADDRESS can assign) is constant during a case",
    "a setup MUST be reported for: own SETUP token immediately followed (next packet on the wire) by a CRC-valid DATA0 "
    "packet of exactly 8 bytes. It MUST NOT be reported for any other packet unless an own SETUP token is the most "
    "recent own-addressed token and no report happened since. The remaining shapes (own SETUP token, then foreign/"
    "garbage/corrupt packets, then a valid 8-byte data packet; 8-byte DATA1/DATA2/MDATA after SETUP) are not judged: "
    "the statement's 'followed by' does not say whether unrelated packets may intervene",
    "the inter-packet gap before the ACK is measured from the first cycle rx_active is low after the data packet: "
    ">= 1 cycle at high speed, >= 10 cycles (2 bit times) at full speed",
]

HIGH, FULL = 0, 1
SETUP_TOKEN = rx.token_bytes(usb2.PID_SETUP, 0, 0)


def _harness():
    from luna.gateware.interface.utmi import UTMIInterface
    from luna.gateware.usb.usb2.request import USBSetupDecoder
    utmi = UTMIInterface()
    dut = USBSetupDecoder(utmi=utmi, standalone=True)
    p = dut.packet
    return CycleHarness(
        dut,
        dict(rx_active=utmi.rx_active, rx_valid=utmi.rx_valid, rx_data=utmi.rx_data, speed=dut.speed),
        dict(rcv=p.received, ack=dut.ack, recipient=p.recipient, type=p.type, is_in=p.is_in_request, request=p.request,
             value=p.value, index=p.index, length=p.length),
        domain="usb")


class _Wired(Elaboratable):
    """USBTokenDetector (with the device's address) + USBDataPacketCRC + USBInterpacketTimer + USBSetupDecoder
    (standalone=False), connected the way usb2/device.py:259-286 and usb2/control.py:133-141 do for a ULPI (60 MHz)
    device: tokenizer.address/speed, CRC fed from utmi.rx_data/rx_valid, timer.speed, tokenizer interface fanned
    out to the decoder, decoder.speed."""

    def __init__(self):
        from luna.gateware.interface.utmi import UTMIInterface
        from luna.gateware.usb.usb2.packet import USBTokenDetector, USBDataPacketCRC, USBInterpacketTimer
        from luna.gateware.usb.usb2.request import USBSetupDecoder
        self.utmi = UTMIInterface()
        self.address = Signal(7)
        self.speed = Signal(2)
        self.tokenizer = USBTokenDetector(utmi=self.utmi)
        self.crc = USBDataPacketCRC()
        self.timer = USBInterpacketTimer()
        self.decoder = USBSetupDecoder(utmi=self.utmi)

    def elaborate(self, platform):
        m = Module()
        m.submodules.tokenizer = self.tokenizer
        m.submodules.crc = self.crc
        m.submodules.timer = self.timer
        m.submodules.decoder = self.decoder
        self.crc.add_interface(self.decoder.data_crc)
        self.timer.add_interface(self.decoder.timer)
        m.d.comb += [
            self.tokenizer.address.eq(self.address),
            self.tokenizer.speed.eq(self.speed),
            self.timer.speed.eq(self.speed),
            self.decoder.speed.eq(self.speed),
            self.crc.rx_data.eq(self.utmi.rx_data),
            self.crc.rx_valid.eq(self.utmi.rx_valid),
            self.tokenizer.interface.connect(self.decoder.tokenizer),
        ]
        return m


def _wired_harness():
    dut = _Wired()
    utmi, p = dut.utmi, dut.decoder.packet
    return CycleHarness(
        dut,
        dict(rx_active=utmi.rx_active, rx_valid=utmi.rx_valid, rx_data=utmi.rx_data, speed=dut.speed,
             address=dut.address),
        dict(rcv=p.received, ack=dut.decoder.ack, recipient=p.recipient, type=p.type, is_in=p.is_in_request,
             request=p.request, value=p.value, index=p.index, length=p.length),
        domain="usb")


def fields_of(payload):
    b = payload
    return dict(recipient=b[0] & 0x1F, type=(b[0] >> 5) & 3, is_in=b[0] >> 7, request=b[1],
                value=b[2] | (b[3] << 8), index=b[4] | (b[5] << 8), length=b[6] | (b[7] << 8))


# ------------------------------------------------------------------------------------------ generator
SETUP8 = st.one_of(
    st.sampled_from([[0x80, 6, 0, 1, 0, 0, 0x40, 0], [0, 5, 0x15, 0, 0, 0, 0, 0], [0, 9, 1, 0, 0, 0, 0, 0],
                     [0xFF] * 8, [0] * 8, [0xA1, 0xFE, 0x34, 0x12, 0x78, 0x56, 0xBC, 0x9A]]),
    st.lists(rx.BYTE, min_size=8, max_size=8))
OTHER_LEN = st.one_of(st.lists(rx.BYTE, min_size=0, max_size=7), st.lists(rx.BYTE, min_size=9, max_size=12))
FOREIGN_OFFSET = st.one_of(st.sampled_from([1, 2, 0x40, 0x7F]), st.integers(1, 127))   # distance from the own address


def _items(addr=0):
    SETUP_TOKEN = rx.token_bytes(usb2.PID_SETUP, addr, 0)
    FOREIGN = FOREIGN_OFFSET.map(lambda d: (addr + d) % 128)                    # never the own address
    setup_tok = st.just(SETUP_TOKEN)
    good_data = st.builds(rx.data_bytes, st.just(usb2.PID_DATA0), SETUP8)
    # over-long data packets that BEGIN like a complete CRC-valid packet (what a receiver that stops looking once its
    # 8+2-byte buffer is full would accept): a CRC-valid packet whose payload is P(k) || crc16(P(k)) || 0..8 more bytes
    # (k = 8 mostly, sometimes 0..7), and a complete CRC-valid k-byte packet with 1..6 trailing bytes before rx_active
    # drops (babble / dribble; the packet as a whole then has a bad CRC16 unless the tail happens to fix it up -- the
    # oracle re-parses the literal bytes either way).
    PREFIX = st.one_of(SETUP8, SETUP8, SETUP8, st.lists(rx.BYTE, min_size=0, max_size=7))
    TAIL = st.one_of(st.sampled_from([[0], [0xFF], [0, 0], [0xFF, 0xFF]]), st.lists(rx.BYTE, min_size=1, max_size=6))
    overlong_embedded = st.builds(
        lambda pid, p, more: rx.data_bytes(pid, list(p) + rx.data_bytes(pid, p)[-2:] + more),
        st.just(usb2.PID_DATA0), PREFIX, st.one_of(st.just([]), st.lists(rx.BYTE, min_size=0, max_size=8)))
    overlong_trailing = st.builds(lambda pid, p, tail: rx.data_bytes(pid, p) + tail, st.just(usb2.PID_DATA0), PREFIX, TAIL)
    corrupt = st.one_of(
        rx.data_bad_crc(pid=st.just(usb2.PID_DATA0), payload=SETUP8),                       # bad CRC16, 8 bytes
        rx.data_bad_crc(pid=st.just(usb2.PID_DATA0), payload=SETUP8),
        st.builds(rx.data_bytes, st.just(usb2.PID_DATA0), OTHER_LEN),                       # good CRC, wrong length
        rx.data_short(pid=st.just(usb2.PID_DATA0)),                                         # PID + 0/1 byte
        st.builds(lambda p, n: p[:len(p) - n], good_data, st.integers(1, 9)),               # truncated mid-packet
        st.builds(lambda p, m: [p[0] ^ (m << 4)] + p[1:], good_data, st.integers(1, 15)),   # PID check nibble broken
        rx.garbage(12),
        st.just([]),                                                                        # activation without bytes
        rx.data_bad_crc(payload=rx.payloads(max_len=12, average=5)),
        overlong_embedded, overlong_embedded, overlong_trailing,
    )
    any_data = st.one_of(good_data, corrupt, rx.data_good(payload=rx.payloads(max_len=12, average=5)))
    own_other_tok = st.builds(rx.token_bytes, st.sampled_from([usb2.PID_IN, usb2.PID_OUT, usb2.PID_PING]), st.just(addr), rx.ENDP)
    foreign_tok = st.builds(rx.token_bytes, rx.TOKEN_PID, FOREIGN, rx.ENDP)
    misc = st.one_of(rx.handshake_good(), st.builds(rx.sof_bytes, rx.FRAME), rx.garbage(6), st.just([]), good_data,
                     st.builds(lambda b, pos: [b[0]] + rx.flip_bits(b[1:], pos), setup_tok,
                               st.lists(st.integers(0, 15), min_size=1, max_size=2)))        # SETUP token, bad CRC5
    # near-miss SETUP tokens (not SETUP tokens for this device, so nothing after them may be reported): the PID byte
    # has the SETUP low nibble but a wrong check nibble (own address, good CRC5) -- e.g. an OUT token with two PID bits
    # hit; bad CRC5; foreign address. Same for the other token PIDs with a broken check nibble.
    badnib_setup = st.builds(lambda m, e: [SETUP_TOKEN[0] ^ (m << 4)] + rx.token_bytes(usb2.PID_SETUP, addr, e)[1:],
                             st.integers(1, 15), weighted([(0, 3), (1, 1)]))
    badnib_tok = st.builds(lambda pid, m, e: (lambda t: [t[0] ^ (m << 4)] + t[1:])(rx.token_bytes(pid, addr, e)),
                           rx.TOKEN_PID, st.integers(1, 15), rx.ENDP)
    badcrc5_setup = st.builds(lambda pos: [SETUP_TOKEN[0]] + rx.flip_bits(SETUP_TOKEN[1:], pos),
                              st.lists(st.integers(0, 15), min_size=1, max_size=2))
    foreign_setup = st.builds(rx.token_bytes, st.just(usb2.PID_SETUP), FOREIGN, st.just(0))
    near_setup = st.one_of(badnib_setup, badnib_setup, badnib_tok, badcrc5_setup, foreign_setup)
    items = st.one_of(
        st.tuples(setup_tok, good_data), st.tuples(setup_tok, good_data),
        st.tuples(near_setup, good_data), st.tuples(near_setup, good_data), st.tuples(near_setup, any_data),
        st.tuples(setup_tok, corrupt), st.tuples(setup_tok, corrupt), st.tuples(setup_tok, corrupt),
        st.tuples(setup_tok),
        st.tuples(setup_tok, st.builds(rx.data_bytes, st.sampled_from([usb2.PID_DATA1, usb2.PID_DATA2]), SETUP8)),
        st.tuples(own_other_tok), st.tuples(own_other_tok, any_data),
        st.tuples(foreign_tok), st.tuples(foreign_tok, any_data),
        st.tuples(misc), st.tuples(misc), st.tuples(corrupt),
    )
    return items


def _case_strategy(addr=None):
    tm = rx.timing(min_idle=2, max_idle=14, big_gaps=True)
    mk = lambda tup, tms: [dict(t, bytes=list(b)) for b, t in zip(tup, tms)]
    item = st.builds(mk, _items(addr or 0), st.tuples(tm, tm))
    final = st.builds(mk, st.tuples(st.just(rx.token_bytes(usb2.PID_SETUP, addr or 0, 0)),
                                    st.builds(rx.data_bytes, st.just(usb2.PID_DATA0), SETUP8)),
                      st.tuples(tm, tm))
    return st.fixed_dictionaries(dict(
        **({} if addr is None else dict(addr=st.just(addr))),
        speed=st.sampled_from([FULL, HIGH]),
        evs=st.builds(lambda items, fin: [e for it in items for e in it] + list(fin),
                      long_lists(item, min_size=0, max_size=10, average=4), final),
        noise=st.sampled_from([0, 0xFF, 0x2D, 0xC3]),
    ))


# ------------------------------------------------------------------------------------------ oracle
MUST, MUSTNOT, UNJUDGED = "must-report", "must-not", "unjudged"


def classify(packets, addr=0):
    """Reference scan over the literal packets -> list of (verdict, parse, note) and root-cause hints."""
    out = []
    last_own = None          # PID of the most recent own-addressed token, None once consumed
    intervening = 0
    unknown = False
    for data in packets:
        p = usb2.parse(data)
        k = p["kind"]
        if k == "token" and p["addr"] == addr:
            last_own, intervening, unknown = p["pid"], 0, False
            out.append((MUSTNOT, p, "own-token"))
        elif k == "data" and len(p["payload"]) == 8:
            if unknown:
                out.append((UNJUDGED, p, "after-unjudged"))
            elif last_own == usb2.PID_SETUP and intervening == 0 and p["pid"] == usb2.PID_DATA0:
                out.append((MUST, p, "setup"))
                last_own = None
            elif last_own == usb2.PID_SETUP:
                out.append((UNJUDGED, p, "setup-with-intervening-or-other-pid"))
                unknown = True
            else:
                out.append((MUSTNOT, p, "data8-without-setup-token"))
            intervening += 1
        else:
            out.append((MUSTNOT, p, k))
            intervening += 1
    return out


class SetupDecoder(Sub):
    name = "decoder"
    budget = {"quick": 8000, "thorough": 100000}
    rule = ("USBSetupDecoder(standalone) at FS and HS fed 0..10 generated items followed by a final valid SETUP transaction; "
            "items: SETUP+DATA0(8) good; SETUP + corrupt data (CRC16 flipped/swapped, good CRC with 0..7/9..12 bytes, PID+0/1 "
            "byte, truncated, broken check nibble, garbage, empty activation, over-long packets that begin like a complete valid "
            "packet: CRC-valid payload P||crc16(P)||0..8 more bytes, or a complete valid packet + 1..6 trailing bytes); lone SETUP token; SETUP+DATA1/2(8); own "
            "IN/OUT/PING (+data); foreign-address tokens (+data, incl. foreign SETUP+8 bytes); handshakes, SOFs, stray data, "
            "SETUP token with bad CRC5; near-miss SETUP tokens (SETUP low nibble with a wrong check nibble / bad CRC5 / foreign "
            "address, and other token PIDs with a wrong check nibble) followed by a valid 8-byte DATA0. Oracle: reference scan of the literal packets: own SETUP token immediately followed "
            "by CRC-valid 8-byte DATA0 => exactly one received strobe with all 7 fields equal to the bytes and exactly one "
            "ack no earlier than the gap (HS 1 / FS 10 cycles) after the packet end; no received/ack for any packet outside "
            "a pending own SETUP. non-trivial = >=1 corrupt/short/aborted data-PID packet or garbage strictly before a "
            "must-report SETUP")

    wired = False

    def setup(self):
        self.h = _harness()

    def strategy(self):
        return _case_strategy()

    def run(self, case):
        speed = case["speed"]
        gap = 1 if speed == HIGH else 10
        evs = [dict(ev, idle=ev["idle"] + (0 if speed == HIGH else 10)) for ev in case["evs"]]
        script, spans = utmi_rx.render(evs, noise=case["noise"])
        script[0]["speed"] = speed
        addr = case.get("addr", 0)
        if self.wired:
            script[0]["address"] = addr
        trace = self.h.run_script(script, tail=20)
        e = rx.ends(spans)
        verdicts = classify([ev["bytes"] for ev in evs], addr)
        labels = {"HS" if speed == HIGH else "FS"}
        if self.wired:
            labels.add("addr>=64" if addr >= 64 else "addr=0" if addr == 0 else "addr 1..63")
        for t in range(0, e[0]):
            if trace[t].rcv or trace[t].ack:
                return fail(f"received/ack before any packet ended (cycle {t})", signature="spurious-before-first")
        corrupt_seen = False
        stuck_candidate = False       # a data-PID packet that ended without a valid CRC (deserializer stays in CAPTURE_DATA)
        pending_before_token = False
        abandoned_setup = False       # an own SETUP token is pending (no token / valid data packet since)
        nontrivial = False
        for i, (ev, (verdict, p, note)) in enumerate(zip(evs, verdicts)):
            lo, hi = e[i], (e[i + 1] if i + 1 < len(e) else len(trace))
            rcvs = [t for t in range(lo, hi) if trace[t].rcv]
            acks = [t for t in range(lo, hi) if trace[t].ack]
            labels.add(f"{verdict}:{note}")

            def what():
                return (f"{'HS' if speed == HIGH else 'FS'} packet {i}/{len(evs) - 1} [{rx.hexs(ev['bytes'])}] ({note}), "
                        f"window cycles {lo}..{hi - 1}; history: "
                        + " | ".join(f"{v[2]}" for v in verdicts[:i + 1]))

            if verdict == MUST:
                if corrupt_seen:
                    nontrivial = True
                if len(rcvs) != 1:
                    if not rcvs:
                        causes = [c for c, on in (("corrupt-data", stuck_candidate), ("abandoned-setup", pending_before_token)) if on]
                        sig = "setup-missed" + ("-after-" + "+".join(causes) if causes else "")
                    else:
                        sig = "setup-duplicated"
                    return fail(f"{what()}: expected exactly one packet.received strobe, got {rcvs}", signature=sig)
                o = trace[rcvs[0]]
                want = fields_of(p["payload"])
                got = {k: getattr(o, k) for k in want}
                if got != want:
                    bad = [k for k in want if got[k] != want[k]]
                    return fail(f"{what()}: decoded fields differ in {bad}: got {got} expected {want}",
                                signature="setup-fields-wrong")
                if len(acks) != 1:
                    return fail(f"{what()}: expected exactly one ack, got {acks}",
                                signature="ack-missing" if not acks else "ack-duplicated")
                if acks[0] - lo < gap:
                    return fail(f"{what()}: ack at cycle {acks[0]}, only {acks[0] - lo} cycles after the packet end "
                                f"(gap {gap})", signature="ack-too-early")
            elif verdict == MUSTNOT:
                if rcvs or acks:
                    return fail(f"{what()}: unexpected received {rcvs} / ack {acks}", signature=f"spurious-setup-{note}")
            # bookkeeping for non-triviality and root-cause signatures
            k = p["kind"]
            if k == "data-short" or (k == "data-badcrc" and len(ev["bytes"]) <= 11):
                stuck_candidate = True
            if k in ("data-badcrc", "data-short") or (k == "data" and len(p["payload"]) != 8) or \
                    k in ("empty", "badpid") or (k == "other"):
                corrupt_seen = True
                labels.add("corrupt:" + k)
            if len(ev["bytes"]) > 11 and usb2.parse(ev["bytes"][:11])["kind"] == "data":
                labels.add(f"overlong-with-valid-8-byte-prefix:{k}")     # longer packet that begins like a valid setup data packet
            if k == "token" and p["addr"] == addr:
                pending_before_token = abandoned_setup
                abandoned_setup = p["pid"] == usb2.PID_SETUP
            elif k == "data" and len(p["payload"]) <= 8:
                abandoned_setup = False      # a CRC-valid packet that fits the 8-byte deserializer ends the wait for data
        return Result(ok=True, nontrivial=nontrivial, labels=tuple(sorted(labels)))


class WiredDecoder(SetupDecoder):
    name = "wired"
    budget = {"quick": 3000, "thorough": 40000}
    rule = ("same histories and the same oracle as `decoder`, but the DUT is USBTokenDetector(address input) + "
            "USBDataPacketCRC + USBInterpacketTimer + USBSetupDecoder(standalone=False) wired as device.py/control.py do, "
            "with a generated 7-bit device address (0, 1, 0x3F, 0x40, 0x55, 0x6C, 0x7F or any 0..127; constant per case): "
            "own tokens carry that address, foreign tokens any other. non-trivial as in `decoder`")
    wired = True

    def setup(self):
        self.h = _wired_harness()

    def strategy(self):
        addr = st.one_of(st.sampled_from([0x40, 0x7F, 0x55, 0x2A, 0x6C, 0x3F, 1, 0]), st.integers(0, 127))
        return addr.flatmap(_case_strategy)


SUBS = [SetupDecoder(), WiredDecoder()]
