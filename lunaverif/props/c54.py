"""C54 — PHYResetController produces the configured reset/stop pulses and always finishes."""
from collections import OrderedDict

from hypothesis import strategies as st

from lunaverif.core import Sub, Result, fail
from lunaverif.gen import weighted
from lunaverif.simkit import CycleHarness

PROPERTY = "C54"
ASSUMPTIONS = [
    "reset_length/stop_length are given as (cycles - 0.5)/clock_frequency so that ceil(length * frequency) is the "
    "intended cycle count with no floating-point edge effects",
    "a trigger is recognised only while the controller is idle (phy_stop low); triggers during a running sequence are "
    "generated and must not change the pulse lengths",
    "'always finish' is decided in bounded form: phy_stop must fall R+S cycles after the sequence started, observed for "
    "R+S+4 cycles after the last possible start",
    "a recognised trigger must start the sequence within 2 cycles",
]

FREQS = [60e6, 12e6, 48e6, 100e6, 125e6, 1e6, 32768.0, 250e6]
RESPONSE = 2           # cycles allowed between an idle trigger and the start of the reset pulse


def _length():
    edges = [1, 2, 3, 4, 5, 7, 8, 9, 15, 16, 17, 31, 32, 33, 63, 64, 65, 120, 127, 128, 129, 255, 256, 257, 300]
    return st.one_of(st.sampled_from(edges), st.integers(1, 300), st.integers(1, 12))


class ResetSub(Sub):
    name = "reset-controller"
    budget = {"quick": 5000, "thorough": 60000}
    rule = ("PHYResetController(clock_frequency from 8 values, reset R and stop S cycles 1..300 each (stop <, =, > reset, "
            "power-of-two edges), power_on_reset on/off) driven with 0..4 trigger events (pulse or level, placed while "
            "idle, during reset, during stop, spanning the end of a sequence); oracle: every phy_stop pulse is exactly R+S "
            "cycles with phy_reset high in exactly its first R cycles, pulses start only at power-on or <=2 cycles after "
            "an idle trigger, every idle trigger starts one, and the controller is idle again at the end; non-trivial = "
            "stop > reset AND >=2 completed sequences AND a trigger that arrived during a running sequence")

    def setup(self):
        self.h = OrderedDict()

    def harness(self, key):
        if key in self.h:
            self.h.move_to_end(key)
            return self.h[key]
        from luna.gateware.architecture.car import PHYResetController
        fi, r, s, por = key
        f = FREQS[fi]
        dut = PHYResetController(clock_frequency=f, reset_length=(r - 0.5) / f, stop_length=(s - 0.5) / f,
                                 power_on_reset=bool(por))
        h = CycleHarness(dut, ins=dict(trigger=dut.trigger), outs=dict(reset=dut.phy_reset, stop=dut.phy_stop))
        self.h[key] = h
        if len(self.h) > 300:
            self.h.popitem(last=False)
        return h

    def strategy(self):
        # a trigger event: where it starts relative to the previous event's sequence, and how long it is held
        ev = st.fixed_dictionaries(dict(
            phase=weighted([("idle", 5), ("reset", 2), ("stop", 2), ("end", 2)]),
            offset=st.integers(0, 40),
            hold=weighted([(1, 5), (2, 1), (5, 1), (40, 1), (400, 1)]),
        ))
        rel = weighted([("lt", 2), ("eq", 1), ("gt", 4), ("free", 2)])

        def lengths(relation, a, b):
            if relation == "eq":
                return a, a
            if relation == "lt":
                return max(a, b), min(a, b)
            if relation == "gt":
                return min(a, b), max(a, b) + (1 if a == b else 0)
            return a, b
        return st.builds(lambda relation, a, b, fi, por, events: dict(
            f=fi, r=lengths(relation, a, b)[0], s=min(300, lengths(relation, a, b)[1]), por=por, events=events),
            rel, _length(), _length(), st.integers(0, len(FREQS) - 1), st.integers(0, 1),
            st.lists(ev, min_size=0, max_size=4))

    def run(self, case):
        r, s, por = case["r"], case["s"], case["por"]
        seq = r + s
        # ---- build the trigger waveform by construction on a model timeline
        wave = []

        def put(t0, hold):
            while len(wave) < t0 + hold:
                wave.append(0)
            for t in range(t0, t0 + hold):
                wave[t] = 1
        # model timeline: t_free = first cycle at which the controller is idle again (per the statement)
        t_free = seq if por else 0
        busy_from = 0 if por else None
        for ev in case["events"]:
            if ev["phase"] == "idle" or busy_from is None:
                t0 = t_free + 1 + ev["offset"]
            elif ev["phase"] == "reset":
                t0 = busy_from + (ev["offset"] % r)
            elif ev["phase"] == "stop":
                t0 = busy_from + r + (ev["offset"] % s)
            else:                                   # straddle the end of the running sequence
                t0 = max(busy_from, t_free - 1 - (ev["offset"] % 3))
            t0 = max(t0, len(wave))
            put(t0, ev["hold"])
            # where does the model expect sequences to run?  recompute from the whole waveform below
            t_free, busy_from = self._timeline(wave, por, r, s)
        total = max(len(wave), t_free) + seq + RESPONSE + 6
        wave += [0] * (total - len(wave))
        trace = self.harness((case["f"], r, s, por)).run_script([dict(trigger=v) for v in wave])
        rst = [o.reset for o in trace]
        stp = [o.stop for o in trace]
        cfg = f"R={r} S={s} por={por} f={FREQS[case['f']]:g}"

        # ---- parse stop pulses
        pulses = []
        t = 0
        n = len(trace)
        while t < n:
            if stp[t]:
                u = t
                while u < n and stp[u]:
                    u += 1
                pulses.append((t, u))
                t = u
            else:
                if rst[t]:
                    return fail(f"{cfg}: cycle {t}: phy_reset high while phy_stop low", signature="reset-without-stop")
                t += 1
        busy_trigger = False
        for (a, b) in pulses:
            if b >= n:
                sig = "never-finishes-stop-longer-than-reset" if s > r else "never-finishes"
                return fail(f"{cfg}: sequence started in cycle {a} is still running {n - a} cycles later (phy_stop "
                            f"never fell; expected to finish after {seq} cycles)", signature=sig)
            k = 0
            while a + k < b and rst[a + k]:
                k += 1
            if any(rst[a + k:b]):
                return fail(f"{cfg}: sequence at {a}: phy_reset re-asserted inside the stop window", signature="reset-glitch")
            if k != r:
                return fail(f"{cfg}: sequence at cycle {a}: phy_reset high for {k} cycles, {r} configured",
                            signature="reset-length")
            if b - a - k != s:
                sig = "stop-length-stop-longer-than-reset" if s > r else "stop-length"
                return fail(f"{cfg}: sequence at cycle {a}: phy_stop held {b - a - k} cycles after reset, {s} configured",
                            signature=sig)
            if any(wave[a:b]):
                busy_trigger = True
        # ---- causes and responses
        starts = [a for a, _ in pulses]
        if por and (not starts or starts[0] != 0):
            return fail(f"{cfg}: no reset sequence at power-on (first start {starts[:1]})", signature="no-power-on-reset")
        for a in starts:
            if a == 0 and por:
                continue
            if not any(wave[max(0, a - RESPONSE):a]):
                return fail(f"{cfg}: sequence started at cycle {a} without a trigger in the preceding {RESPONSE} cycles",
                            signature="spurious-sequence")
        for t in range(n - seq - RESPONSE - 2):
            if wave[t] and not stp[t]:
                if not any(t < a <= t + RESPONSE for a in starts):
                    return fail(f"{cfg}: trigger in idle cycle {t} did not start a sequence within {RESPONSE} cycles",
                                signature="trigger-ignored")
        labels = {"stop>reset" if s > r else ("stop=reset" if s == r else "stop<reset"), f"por={por}",
                  f"sequences={min(len(pulses), 3)}"}
        if busy_trigger:
            labels.add("trigger-while-busy")
        if r == 1 or s == 1:
            labels.add("length-1")
        return Result(ok=True, nontrivial=(s > r and len(pulses) >= 2 and busy_trigger), labels=tuple(sorted(labels)))

    @staticmethod
    def _timeline(wave, por, r, s):
        """Statement-level model: returns (first idle cycle after everything currently scheduled, start of the last
        sequence or None).  Trigger in an idle cycle t starts a sequence occupying t+1 .. t+r+s."""
        seq = r + s
        busy_until = seq if por else 0          # first idle cycle
        last = 0 if por else None
        for t, v in enumerate(wave):
            if v and t >= busy_until:
                last = t + 1
                busy_until = t + 1 + seq
        return busy_until, last


SUBS = [ResetSub()]
