"""C23 — ULPI transmit translation delivers the UTMI packet unchanged."""

from hypothesis import strategies as st

from lunaverif.core import Sub, Result, fail
from lunaverif.gen import long_lists, weighted, bits
from lunaverif.bfm import g7_ulpi_phy as P
from lunaverif.bfm import g7_ulpi_gen as G

PROPERTY = "C23"
ASSUMPTIONS = [
    "UTMI transmit source: tx_valid/tx_data held until tx_ready, next byte (or tx_valid low) in the following cycle",
    "op_mode and the other control inputs are constant during each transmission (request to STP) and the register "
    "writes caused by start-up / by a change between two transmissions have completed (translator not busy for 6 "
    "cycles) before the next transmission or change (changes concurrent with traffic are C24's domain); a packet is "
    "judged by the op_mode held during it; exception: 1 mixed-mode step in 3 raises tx_valid 0..6 cycles after the "
    "change, while the register write it triggers is pending or in flight (inputs still constant request-to-STP)",
    "op_mode is 0 (normal) or 2 (bit-stuffing/NRZI disabled); the PHY never raises DIR between accepting a transmit "
    "command and the STP",
    "PHY obeys ULPI 1.1 (see lunaverif/bfm/g7_ulpi_phy.py)",
]


def expected_stream(data, op_mode):
    if op_mode == 2:
        return 0x40, list(data), 0xFF
    return 0x40 | (data[0] & 0xF), list(data[1:]), 0x00


class TranslatorTx(Sub):
    name = "translator"
    shrink_budget = 150
    budget = {"quick": 6000, "thorough": 80000}
    rule = ("UTMITranslator + ULPI PHY BFM: UTMI transmissions (1..40 bytes, any first byte, op_mode 0/2) with "
            "generated NXT delay patterns, 2 cases in 5 with op_mode (0/2; also xcvr/term select) changed between "
            "packets of the same instance (change and next packet each wait for the translator to be idle), "
            "PHY bursts (RxCmds / receives) between transmissions and aimed at the "
            "pending transmit command before / in the cycle it would be accepted; oracle from what the PHY "
            "accepted: command byte, data bytes, STP cycle and STP data, tx_ready cycles == PHY acceptance cycles, "
            "data.oe == 0 whenever DIR is high, no command withdrawn or changed before acceptance; non-trivial = "
            "a transmission of >=2 bytes with at least one throttled byte")

    def setup(self):
        self.h = P.make_translator_harness()

    def strategy(self):
        ev = st.one_of(G.tx_request(), G.tx_request(), G.tx_request(max_len=40, average=16),
                       G.burst(trig=weighted([(0, 2), (4, 2), (5, 1)]), p_packet=1))
        init = st.fixed_dictionaries({n: (weighted([(0, 2), (2, 1)]) if n == "op_mode" else
                                          bits(G.CTL_WIDTH.get(n, 1))) for n in G.CTL_NAMES})
        const_mode = st.fixed_dictionaries(dict(
            init=init, delays=G.DELAYS, ev=long_lists(ev, min_size=1, max_size=10, average=4)))
        # several packets on one instance with op_mode differing per packet: a mode change (with the xcvr/term
        # settings a chirp changes along with it) only while idle, and the next packet only after the Function
        # Control write it triggers has settled
        settled = lambda s: s.map(lambda e: dict(e, settle=1))
        mode = st.fixed_dictionaries(dict(
            k=st.just("ctl"), gap=G.GAP_SMALL, sync=st.just(0), settle=st.just(1),
            set=st.one_of(
                st.fixed_dictionaries(dict(op_mode=st.sampled_from([0, 2]))),
                st.fixed_dictionaries(dict(op_mode=st.sampled_from([2, 0]), xcvr_select=bits(2), term_select=bits(1))))))
        # 1 step in 3: the first packet after the change does NOT wait for the register write the change triggers --
        # tx_valid rises 0..6 cycles after the change (write pending / in flight); inputs still constant request-to-STP
        early = st.tuples(st.integers(0, 6), G.tx_request()).map(lambda p: dict(p[1], gap=p[0], settle=0))
        step = st.tuples(mode, st.one_of(st.just(None), st.just(None), early), st.lists(st.one_of(
            settled(G.tx_request()), settled(G.tx_request()), settled(G.tx_request(max_len=40, average=12)),
            G.burst(trig=weighted([(0, 2), (4, 2), (5, 1)]), p_packet=1)), min_size=1, max_size=3)
        ).map(lambda p: [p[0]] + ([p[1]] if p[1] else []) + p[2])
        mixed = st.fixed_dictionaries(dict(
            init=init, delays=G.DELAYS,
            ev=st.tuples(st.lists(settled(G.tx_request()), max_size=2),
                         long_lists(step, min_size=1, max_size=6, average=3)).map(
                lambda p: p[0] + [e for grp in p[1] for e in grp])))
        return st.one_of(const_mode, const_mode, const_mode, mixed, mixed)

    def run(self, case):
        evs = case["ev"]
        D = max(case["delays"])
        cap = 400 + sum(e["gap"] for e in evs) + 60 * len(evs) + 8 * D
        for e in evs:
            if e["k"] == "rx":
                cap += sum(s["n"] + sum(1 + b[1] for b in s.get("b", ())) + 3 for s in e["segs"])
            elif e["k"] == "tx":
                cap += (len(e["bytes"]) + 3) * (D + 1)
            else:
                cap += 40 + 6 * D                      # the register write a control change triggers
        drv = P.TranslatorDriver(case["init"], evs, case["delays"], quiet=8, cap=cap, settle=True)
        trace = self.h.run_driver(drv, cap + 2)
        phy = drv.phy
        wire = phy.wire
        if drv.ended != "quiet":
            pend = drv.tx is not None
            return fail(f"no quiescence within {cap} cycles (transmission pending: {pend}, PHY state "
                        f"{P.STATE_NAMES[phy.state]})", signature="tx-stuck" if pend else "bus-never-quiet")
        for t, o in enumerate(trace):
            if wire[t][0] and o.oe:
                return fail(f"cycle {t}: data.oe high while DIR is high", signature="drives-bus-while-dir-high")
        if phy.events:
            t, what = phy.events[0]
            return fail(f"cycle {t}: link protocol irregularity seen by the PHY: {what}",
                        signature="link-" + what.split(" ")[0])
        reqs = drv.tx_log
        if len(phy.txs) != len(reqs):
            return fail(f"{len(reqs)} UTMI transmissions but the PHY accepted {len(phy.txs)} transmit commands",
                        signature="transmit-command-count")
        ready_exp = set()
        labels = set()
        nontrivial = False
        for i, (rq, tx) in enumerate(zip(reqs, phy.txs)):
            mode = rq["op_mode"]                    # the op_mode held from this packet's request to its STP
            cmd, rest, stpd = expected_stream(rq["bytes"], mode)
            got = [b for _, b in tx["bytes"]]
            if tx["cmd"] != cmd:
                return fail(f"tx {i}: transmit command 0x{tx['cmd']:02x}, expected 0x{cmd:02x} (op_mode {mode}, first "
                            f"byte 0x{rq['bytes'][0]:02x})", signature="wrong-transmit-command")
            if got != rest:
                return fail(f"tx {i}: PHY accepted data {got}, UTMI packet remainder {rest}",
                            signature="tx-bytes-mismatch")
            if tx["stp_t"] is None:
                return fail(f"tx {i}: no STP", signature="missing-stp")
            last = tx["bytes"][-1][0] if tx["bytes"] else tx["t_cmd"]
            if tx["stp_t"] != last + 1:
                return fail(f"tx {i}: STP in cycle {tx['stp_t']}, last byte accepted in cycle {last}",
                            signature="stp-not-in-cycle-after-last-byte")
            if tx["stp_data"] != stpd:
                return fail(f"tx {i}: data during STP 0x{tx['stp_data']:02x}, expected 0x{stpd:02x} (op_mode {mode})",
                            signature="wrong-stp-data")
            if mode != 2:
                ready_exp.add(tx["t_cmd"])
            ready_exp.update(t for t, _ in tx["bytes"])
            ts = [tx["t_cmd"]] + [t for t, _ in tx["bytes"]]
            if len(rq["bytes"]) >= 2 and any(b > a + 1 for a, b in zip(ts, ts[1:])):
                nontrivial = True
                labels.add("throttled")
            labels.add("len1" if len(rq["bytes"]) == 1 else "len2-8" if len(rq["bytes"]) <= 8 else "len>8")
            if tx["t_cmd"] > tx["t_seen"] + 1:
                labels.add("command-accept-delayed")
        ready_got = {t for t, o in enumerate(trace) if o.txr and drv.txv[t]}
        if ready_got != ready_exp:
            d = sorted(ready_got ^ ready_exp)
            return fail(f"tx_ready cycles differ from PHY acceptance cycles at {d[:6]} (tx_ready "
                        f"{'high' if d[0] in ready_got else 'low'} in cycle {d[0]})", signature="tx-ready-mismatch")
        modes = [rq["op_mode"] for rq in reqs]
        for m_ in set(modes):
            labels.add("nopid" if m_ == 2 else "pid")
        if any(a == 2 and b != 2 for a, b in zip(modes, modes[1:])):
            labels.add("pid-packet-after-nopid-packet")
        if any(a != 2 and b == 2 for a, b in zip(modes, modes[1:])):
            labels.add("nopid-packet-after-pid-packet")
        if any(s == "CMD:tx" for _, s in phy.burst_fires):
            labels.add("interrupted-before-accept")
        if any(s == "CMD:tx" and wire[t][1] for t, s in phy.burst_fires):
            labels.add("interrupted-by-dir+nxt")
        for rq in reqs:
            if any(0 <= rq["t_start"] - t <= 6 for t, _ in drv.ctl_log[1:]):
                labels.add("tx-within-6-cycles-of-control-change")
        if any(s == "IDLE" for _, s in phy.burst_fires):
            labels.add("burst-between-tx")
        return Result(ok=True, nontrivial=nontrivial, labels=tuple(sorted(labels)))


SUBS = [TranslatorTx()]
