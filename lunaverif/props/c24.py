"""C24 — ULPI control registers always converge to the requested UTMI settings."""

from hypothesis import strategies as st

from lunaverif.core import Sub, Result, fail
from lunaverif.gen import long_lists, weighted, bits
from lunaverif.bfm import g7_ulpi_phy as P
from lunaverif.bfm import g7_ulpi_gen as G
from lunaverif.bfm import g7_ulpi_rst as RST

PROPERTY = "C24"
ASSUMPTIONS = [
    "PHY obeys ULPI 1.1 (lunaverif/bfm/g7_ulpi_phy.py); a register write is committed when STP follows the accepted "
    "data byte; a DIR rise in the STP cycle aborts it (or commits it: both PHY behaviours are generated)",
    "'eventually' is decided in bounded form: after the inputs have been constant and the bus idle for "
    "K = 64 + 8*(max NXT delay) cycles the PHY registers must equal the requested composites; a run that has not "
    "become quiet by the (generous) cycle cap counts as blocked",
    "a write is 'for the register it addresses' when its data equals the composite requested for that address at "
    "some cycle between the previous cleanly committed write (minus 2 cycles) and its own commit (retries of an "
    "interrupted write belong to the same transaction)",
    "UTMI transmit source holds tx_valid/tx_data until tx_ready; tx_valid is low >= 1 cycle between packets",
    "reset sub: the ULPI bus has a reset pin (as on every LUNA platform), which UTMITranslator wires to the reset of "
    "the `usb` domain, so a reset of that domain (any length >= 1 cycle, at any point of the history) also resets "
    "the PHY: its registers return to the ULPI defaults (Function Control 0x41, OTG Control 0x06) and its bus "
    "state to idle; the UTMI transmit source sits in the same domain (tx_valid low from the first reset cycle); "
    "the control inputs keep their values across the reset unless the history changes them",
    "reset sub: after power-up and after each reset the link may leave the bus alone for the PHY's start-up time "
    "(1 ms = 60000 cycles at 60 MHz; a subclass overriding only the class constant _CYCLES_1_MILLISECONDS scales "
    "it to 120 cycles for most cases); 'eventually' and the K quiet cycles are counted from the end of that wait. "
    "A ULPI bus without reset pin is not subjected to domain resets (the statement does not say what the PHY "
    "holds then)",
]

COMPOSITE = {P.FUNC_CTRL: P.func_ctrl_value, P.OTG_CTRL: P.otg_ctrl_value}
REG_NAME = {P.FUNC_CTRL: "FunctionControl", P.OTG_CTRL: "OtgControl"}


def ctl_at(log, t):
    cur = log[0][1]
    for u, c in log:
        if u <= t:
            cur = c
        else:
            break
    return cur


def judge_writes(phy, log, where=""):
    """Safety: each write the PHY committed addresses 0x04/0x0A and carries a value requested for that register."""
    prev_commit = 0
    for w in phy.writes:
        if not w["committed"]:
            continue
        a = w["addr"]
        if a not in COMPOSITE:
            return fail(f"{where}cycle {w['t_commit']}: write to register 0x{a:02x} (never requested)",
                        signature="write-to-unrequested-register")
        lo, hi = max(0, prev_commit - 2), w["t_commit"]
        legal = {COMPOSITE[a](ctl_at(log, t)) for t in range(lo, hi + 1)}
        if w["data"] not in legal:
            other = P.OTG_CTRL if a == P.FUNC_CTRL else P.FUNC_CTRL
            olegal = {COMPOSITE[other](ctl_at(log, t)) for t in range(lo, hi + 1)}
            sig = "write-carries-other-registers-value" if w["data"] in olegal else "write-carries-unrequested-value"
            return fail(f"{where}{REG_NAME[a]} write committed in cycle {w['t_commit']} (command seen {w['t_seen']}) "
                        f"carries 0x{w['data']:02x}; values requested for it in cycles {lo}..{hi}: "
                        f"{sorted(hex(v) for v in legal)}", signature=sig)
        if not w.get("dir_in_stp"):
            # a write the PHY committed although DIR rose in its STP cycle is retried by a link that treats
            # it as aborted: the retry is the same transaction and may carry the value latched at its start
            prev_commit = w["t_commit"]
    return None


def judge_settled(drv, K, cap, where="", sig_suffix=""):
    """Bounded liveness: the run became quiet, and then the PHY's registers equal the requested composites."""
    phy = drv.phy
    log = drv.ctl_log
    if drv.ended != "quiet":
        if drv.tx is not None:
            return fail(f"{where}transmission requested in cycle {drv.tx['t_start']} still pending at the cap "
                        f"({cap} cycles; PHY state {P.STATE_NAMES[phy.state]})",
                        signature="transmission-blocked" + sig_suffix)
        return fail(f"{where}bus never became quiet for {K} cycles within {cap} cycles (last PHY activity "
                    f"{phy.busy_last})", signature="register-writes-never-settle" + sig_suffix)
    final = log[-1][1]
    for a in (P.FUNC_CTRL, P.OTG_CTRL):
        want = COMPOSITE[a](final)
        if phy.regs[a] != want:
            wr = [(w["t_commit"], hex(w["data"])) for w in phy.writes if w["committed"] and w["addr"] == a]
            last_change = log[-1][0]
            return fail(f"{where}after {K} quiet cycles the PHY's {REG_NAME[a]} holds 0x{phy.regs[a]:02x}, requested "
                        f"0x{want:02x} (inputs constant since cycle {last_change}; committed writes to it {wr})",
                        signature="register-not-converged-" + REG_NAME[a] + sig_suffix)
    if any(r["t_end"] is None for r in drv.tx_log):
        return fail(f"{where}a transmission never completed", signature="transmission-blocked" + sig_suffix)
    return None


class Converge(Sub):
    name = "converge"
    shrink_budget = 150
    budget = {"quick": 4000, "thorough": 60000}
    rule = ("UTMITranslator + ULPI PHY BFM with a register file: event lists of control-input changes (aimed at "
            "pending / in-flight register writes, change-and-revert, both registers together, same cycle as a "
            "transmission start), UTMI transmissions, PHY NXT delays and DIR bursts aimed at every write phase; "
            "oracle: every write the PHY committed addresses 0x04/0x0A and carries a value requested for that "
            "register during the write; after K quiet cycles the PHY's Function/OTG Control contents equal the "
            "requested composites; the run becomes quiet (no transmission or write blocked); non-trivial = a "
            "control change landed while a register write was pending/in flight or within a cycle of a "
            "transmission start, and at least one write was committed")

    def setup(self):
        self.h = P.make_translator_harness()

    def strategy(self):
        ev = st.one_of(
            G.ctl_change(sync=weighted([(0, 3), (1, 2), (2, 2), (3, 1), (4, 1)])),
            G.ctl_change(sync=weighted([(0, 3), (1, 2), (2, 2), (3, 1), (4, 1)])),
            G.tx_request(sync=weighted([(0, 3), (1, 1), (2, 1)]), max_len=16, average=4),
            G.burst(trig=weighted([(0, 2), (1, 1), (2, 1), (3, 1), (5, 1), (6, 1)]), p_packet=1))
        return st.fixed_dictionaries(dict(
            init=st.one_of(st.just(G.RESET_CTL), G.ctl_values()), delays=G.DELAYS, cds=st.integers(0, 1),
            ev=long_lists(ev, min_size=1, max_size=16, average=7)))

    def run(self, case):
        evs = case["ev"]
        D = max(case["delays"])
        K = 64 + 8 * D
        cap = 400 + K + sum(e["gap"] for e in evs) + len(evs) * (110 + 12 * D)
        for e in evs:
            if e["k"] == "rx":
                cap += sum(s["n"] + sum(1 + b[1] for b in s.get("b", ())) + 3 for s in e["segs"])
            elif e["k"] == "tx":
                cap += (len(e["bytes"]) + 3) * (D + 1)
        drv = P.TranslatorDriver(case["init"], evs, case["delays"], quiet=K, cap=cap,
                                 commit_on_dir_stp=bool(case["cds"]))
        trace = self.h.run_driver(drv, cap + 2)
        phy = drv.phy
        log = drv.ctl_log
        labels = set()

        bad = judge_writes(phy, log)
        if bad is not None:
            return bad

        # ---- bounded liveness -------------------------------------------------------------------------------
        bad = judge_settled(drv, K, cap)
        if bad is not None:
            return bad

        # ---- classification ---------------------------------------------------------------------------------
        inflight = [s for t, s in drv.ctl_sync_hits[0:] if s in ("CMD", "RWD", "RWS")]
        tx_starts = {r["t_start"] for r in drv.tx_log}
        near_tx = any(abs(t - u) <= 1 for t, _ in drv.ctl_sync_hits for u in tx_starts)
        committed = [w for w in phy.writes if w["committed"]]
        if inflight:
            labels.add("change-during-write")
        if near_tx:
            labels.add("change-at-tx-start")
        if any(s in ("RWD", "RWS", "CMD:regw") for _, s in phy.burst_fires):
            labels.add("write-interrupted-by-dir")
        if any(w.get("dir_in_stp") for w in phy.writes):
            labels.add("dir-in-stp-cycle")
        if {w["addr"] for w in committed} == {P.FUNC_CTRL, P.OTG_CTRL}:
            labels.add("both-registers-written")
        if len(log) >= 3 and any(log[i][1] == log[i - 2][1] for i in range(2, len(log))):
            labels.add("change-and-revert")
        if drv.tx_log:
            labels.add("with-transmission")
        if phy.events:
            labels.add("link-irregularity:" + phy.events[0][1].split(" ")[0])
        if len(phy.txs) != len(drv.tx_log):
            labels.add("transmit-command-count-differs")
        nontrivial = bool((inflight or near_tx) and committed)
        return Result(ok=True, nontrivial=nontrivial, labels=tuple(sorted(labels)))


def event_cap(evs, D, K):
    cap = 400 + K + sum(e["gap"] for e in evs) + len(evs) * (110 + 12 * D)
    for e in evs:
        if e["k"] == "rx":
            cap += sum(s["n"] + sum(1 + b[1] for b in s.get("b", ())) + 3 for s in e["segs"])
        elif e["k"] == "tx":
            cap += (len(e["bytes"]) + 3) * (D + 1)
    return cap


def real_cases():
    """A handful of constructed histories for the unmodified (60000-cycle start-up wait) translator: ~5 s each."""
    def ctl(**kw):
        c = dict(G.RESET_CTL)
        c.update(kw)
        return c

    def chg(gap, late, **kw):
        return dict(k="ctl", gap=gap, sync=0, set=kw, late=late)

    def tx(gap, late, data):
        return dict(k="tx", gap=gap, sync=0, bytes=data, late=late)

    def ep(ev=(), rst=1, set=None, cut=None):
        return dict(rst=rst, set=set or {}, ev=list(ev), cut=cut)

    fs_dev = ctl(xcvr_select=1, term_select=1, dp_pulldown=0, dm_pulldown=0)
    hs_host = ctl(xcvr_select=0, use_external_vbus_indicator=1)
    susp = ctl(xcvr_select=1, term_select=1, suspend=1, id_pullup=1, dp_pulldown=0)
    return [
        dict(init=fs_dev, delays=[0], cds=0, epochs=[ep(), ep(rst=8)]),
        dict(init=hs_host, delays=[1, 0, 2], cds=0,
             epochs=[ep([chg(3, 1, op_mode=2)]), ep([tx(5, 1, [0xC3, 1, 2, 3])], rst=1)]),
        dict(init=dict(G.RESET_CTL), delays=[0, 3], cds=1,
             epochs=[ep([chg(7, 0, term_select=1), chg(20, 1, term_select=0, chrg_vbus=1)]),
                     ep([chg(2, 0, op_mode=1)], rst=3, set=dict(xcvr_select=0))]),
        dict(init=fs_dev, delays=[3], cds=0, epochs=[ep(cut=12), ep(rst=2)]),
        dict(init=susp, delays=[2, 5], cds=0,
             epochs=[ep([tx(9, 0, [0x4B, 0x55])]), ep([chg(1, 1, suspend=0)], rst=70, set=hs_host)]),
        dict(init=hs_host, delays=[0, 1], cds=1,
             epochs=[ep([chg(0, 1, dischrg_vbus=1), chg(1, 1, dischrg_vbus=0)]), ep(rst=1)]),
    ]


class ResetConverge(Sub):
    """real=False: start-up wait constant scaled to 120 cycles (bulk of the search); real=True: the unmodified
    UTMITranslator with its 60000-cycle wait (a few cases per run; case field `real` overrides, for replays)."""
    RULE = ("UTMITranslator on a ULPI bus WITH a reset pin (PHY reset = reset of the usb domain; start-up wait before "
            "the bus is used) + PHY BFM with a register file that returns to the ULPI defaults on reset: histories "
            "of 1..4 epochs separated by pulses of the domain reset (1..70 cycles), each epoch an event list as in "
            "`converge` (control changes inside / after the start-up wait, change-and-revert, transmissions, DIR "
            "bursts); the reset strikes after the bus became quiet, at a generated cycle or in a generated PHY state "
            "(inside the wait, with a register-write / transmit command pending, in the write data / STP phase, in "
            "the transmit data phase); control inputs unchanged, partly or wholly changed while the reset "
            "is asserted. %s Oracle: per epoch, every write the (fresh) PHY committed addresses 0x04/0x0A and "
            "carries a value requested for it; every epoch that is not cut short becomes quiet within the cap after "
            "the start-up wait and then the PHY's Function/OTG Control equal the requested composites; non-trivial "
            "= a reset struck while the PHY held a non-default register value and the following epoch ran to quiet")

    def __init__(self, real=False):
        self.real = real
        if real:
            self.name = "reset-real"
            self.budget = {"quick": 0, "thorough": 240}
            self.shrink_budget = 10
            self.rule = self.RULE % ("DUT: the unmodified UTMITranslator (60000-cycle start-up wait; idle stretches "
                                     "of the wait fast-forwarded, stopping early if the link drives the bus), at "
                                     "most 2 epochs; quick tier: the %d constructed histories of real_cases() "
                                     "(device / host / default / suspended settings; reset when quiet, inside "
                                     "a write, with inputs unchanged or changed, events inside and after the "
                                     "wait) instead of a random search." % len(real_cases()))
        else:
            self.name = "reset"
            self.budget = {"quick": 1600, "thorough": 24000}
            self.shrink_budget = 120
            self.rule = self.RULE % ("DUT: a subclass of UTMITranslator overriding only the class constant "
                                     "_CYCLES_1_MILLISECONDS (start-up wait scaled to 120 cycles).")

    def setup(self):
        self.h = {}

    def enumerate(self, tier):
        return real_cases() if self.real else None

    def harness(self, real):
        if real not in self.h:
            self.h[real] = RST.make_reset_harness(real)
        return self.h[real]

    def strategy(self):
        base = st.one_of(
            G.ctl_change(sync=weighted([(0, 4), (1, 2), (2, 1), (3, 1)])),
            G.ctl_change(sync=weighted([(0, 4), (1, 2), (2, 1), (3, 1)])),
            G.tx_request(sync=weighted([(0, 3), (1, 1), (2, 1)]), max_len=12, average=3),
            G.burst(trig=weighted([(0, 3), (1, 1), (2, 1), (3, 1)]), p_packet=1))
        ev = st.tuples(base, weighted([(0, 1), (1, 1)])).map(lambda p: dict(p[0], late=p[1]))
        one = st.sampled_from(P.CTL_NAMES).flatmap(
            lambda n: st.tuples(st.just(n), bits(P.CTL_WIDTH.get(n, 1))))
        during = st.one_of(st.just({}), st.just({}), st.lists(one, min_size=1, max_size=3).map(dict), G.ctl_values())
        epoch = st.fixed_dictionaries(dict(
            rst=weighted([(1, 3), (2, 2), (3, 1), (8, 2), (70, 1)]),
            set=during,
            ev=long_lists(ev, min_size=0, max_size=8, average=3),
            cut=st.one_of(st.none(), st.none(), st.integers(-40, 260), st.integers(-40, 260)),
            cuts=weighted([(0, 3), (1, 1), (2, 1), (3, 1), (4, 1), (5, 1)])))
        return st.fixed_dictionaries(dict(
            init=st.one_of(st.just(G.RESET_CTL), G.ctl_values(), G.ctl_values()), delays=G.DELAYS,
            cds=st.integers(0, 1),
            epochs=st.lists(epoch, min_size=1 + int(self.real), max_size=2 if self.real else 4)))

    def run(self, case):
        real = bool(case.get("real", self.real))
        epochs = case["epochs"][:2] if real else case["epochs"]
        startup = RST.REAL_STARTUP if real else RST.SCALED_STARTUP
        D = max(case["delays"])
        K = 64 + 8 * D
        caps = [startup + 4 + event_cap(e["ev"], D, K) for e in epochs]
        total = 8 + sum(caps) + sum(max(1, e.get("rst", 1)) + 2 for e in epochs)
        drv = RST.ResetChainDriver(case["init"], epochs, case["delays"], quiet=K, startup=startup, caps=caps,
                                   commit_on_dir_stp=bool(case["cds"]))
        self.harness(real).run_driver(drv, total)
        labels = set()
        nontrivial = False
        armed = False            # a reset struck while the PHY held a non-default register value
        for i, ep in enumerate(drv.done):
            d = ep["drv"]
            where = f"epoch {i} (starts at cycle {ep['t0']}, local cycle numbers): "
            bad = judge_writes(d.phy, d.ctl_log, where)
            if bad is not None:
                return bad
            last = i == len(epochs) - 1
            if ep["cut"] is None or last or d.ended == "quiet":
                bad = judge_settled(d, K, caps[i], where + ("" if i == 0 else "after a domain reset, "),
                                    "" if i == 0 else "-after-reset")
                if bad is not None:
                    return bad
                if armed:
                    nontrivial = True
                    labels.add("converged-after-reset-of-nondefault-phy")
            if not last:
                nondefault = d.phy.regs[P.FUNC_CTRL] != 0x41 or d.phy.regs[P.OTG_CTRL] != 0x06
                armed = nondefault
                nxt = epochs[i + 1]
                new = dict(d.ctl)
                new.update(nxt.get("set") or {})
                labels.add("inputs-unchanged-across-reset" if new == d.ctl else "inputs-changed-during-reset")
                if d.ended != "quiet":
                    labels.add("reset-inside-startup-wait" if d.phy.busy_last < 0 and not d.tx_log else
                               ("reset-mid-" + P.STATE_NAMES[d.phy.state] if not d.phy.idle() else
                                ("reset-mid-transmission" if d.tx is not None else "reset-before-quiet")))
                else:
                    labels.add("reset-when-quiet")
                if nondefault:
                    labels.add("reset-with-nondefault-phy-registers")
        if len(drv.done) != len(epochs):
            raise RuntimeError("reset chain driver stopped early without a verdict")
        labels.add("real-startup-wait" if real else "scaled-startup-wait")
        labels.add(f"epochs={len(epochs)}")
        if any(ep["drv"].tx_log for ep in drv.done):
            labels.add("with-transmission")
        if any(e.get("late") for epc in epochs for e in epc["ev"]) and any(not e.get("late") for epc in epochs for e in epc["ev"]):
            labels.add("events-inside-and-after-wait")
        return Result(ok=True, nontrivial=nontrivial, labels=tuple(sorted(labels)))


SUBS = [Converge(), ResetConverge(), ResetConverge(real=True)]
