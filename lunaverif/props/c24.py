"""C24 — ULPI control registers always converge to the requested UTMI settings."""

from hypothesis import strategies as st

from lunaverif.core import Sub, Result, fail
from lunaverif.gen import long_lists, weighted, bits
from lunaverif.bfm import g7_ulpi_phy as P
from lunaverif.bfm import g7_ulpi_gen as G

PROPERTY = "C24"
ASSUMPTIONS = [
    "PHY obeys ULPI 1.1 (lunaverif/bfm/g7_ulpi_phy.py); a register write is committed when STP follows the accepted "
    "data byte; a DIR rise in the STP cycle aborts it (or commits it: both PHY behaviours are generated)",
    "'eventually' is decided in bounded form: after the inputs have been constant and the bus idle for "
    "K = 64 + 8*(max NXT delay) cycles the PHY registers must equal the requested composites; a run that has not "
    "become quiet by the (generous) cycle cap counts as blocked",
    "a write is 'for the register it addresses' when its data equals the composite requested for that address at "
    "some cycle between the previous cleanly committed write (minus 2 cycles) and its own commit (retries of an "
    "interrupted write belong to the same transaction)",
    "UTMI transmit source holds tx_valid/tx_data until tx_ready; tx_valid is low >= 1 cycle between packets",
]

COMPOSITE = {P.FUNC_CTRL: P.func_ctrl_value, P.OTG_CTRL: P.otg_ctrl_value}
REG_NAME = {P.FUNC_CTRL: "FunctionControl", P.OTG_CTRL: "OtgControl"}


def ctl_at(log, t):
    cur = log[0][1]
    for u, c in log:
        if u <= t:
            cur = c
        else:
            break
    return cur


class Converge(Sub):
    name = "converge"
    shrink_budget = 150
    budget = {"quick": 4000, "thorough": 60000}
    rule = ("UTMITranslator + ULPI PHY BFM with a register file: event lists of control-input changes (aimed at "
            "pending / in-flight register writes, change-and-revert, both registers together, same cycle as a "
            "transmission start), UTMI transmissions, PHY NXT delays and DIR bursts aimed at every write phase; "
            "oracle: every write the PHY committed addresses 0x04/0x0A and carries a value requested for that "
            "register during the write; after K quiet cycles the PHY's Function/OTG Control contents equal the "
            "requested composites; the run becomes quiet (no transmission or write blocked); non-trivial = a "
            "control change landed while a register write was pending/in flight or within a cycle of a "
            "transmission start, and at least one write was committed")

    def setup(self):
        self.h = P.make_translator_harness()

    def strategy(self):
        ev = st.one_of(
            G.ctl_change(sync=weighted([(0, 3), (1, 2), (2, 2), (3, 1), (4, 1)])),
            G.ctl_change(sync=weighted([(0, 3), (1, 2), (2, 2), (3, 1), (4, 1)])),
            G.tx_request(sync=weighted([(0, 3), (1, 1), (2, 1)]), max_len=16, average=4),
            G.burst(trig=weighted([(0, 2), (1, 1), (2, 1), (3, 1), (5, 1), (6, 1)]), p_packet=1))
        return st.fixed_dictionaries(dict(
            init=st.one_of(st.just(G.RESET_CTL), G.ctl_values()), delays=G.DELAYS, cds=st.integers(0, 1),
            ev=long_lists(ev, min_size=1, max_size=16, average=7)))

    def run(self, case):
        evs = case["ev"]
        D = max(case["delays"])
        K = 64 + 8 * D
        cap = 400 + K + sum(e["gap"] for e in evs) + len(evs) * (110 + 12 * D)
        for e in evs:
            if e["k"] == "rx":
                cap += sum(s["n"] + sum(1 + b[1] for b in s.get("b", ())) + 3 for s in e["segs"])
            elif e["k"] == "tx":
                cap += (len(e["bytes"]) + 3) * (D + 1)
        drv = P.TranslatorDriver(case["init"], evs, case["delays"], quiet=K, cap=cap,
                                 commit_on_dir_stp=bool(case["cds"]))
        trace = self.h.run_driver(drv, cap + 2)
        phy = drv.phy
        log = drv.ctl_log
        labels = set()

        # ---- safety: each committed write carries a value requested for the register it addresses ----------
        prev_commit = 0
        for w in phy.writes:
            if not w["committed"]:
                continue
            a = w["addr"]
            if a not in COMPOSITE:
                return fail(f"cycle {w['t_commit']}: write to register 0x{a:02x} (never requested)",
                            signature="write-to-unrequested-register")
            lo, hi = max(0, prev_commit - 2), w["t_commit"]
            legal = {COMPOSITE[a](ctl_at(log, t)) for t in range(lo, hi + 1)}
            if w["data"] not in legal:
                other = P.OTG_CTRL if a == P.FUNC_CTRL else P.FUNC_CTRL
                olegal = {COMPOSITE[other](ctl_at(log, t)) for t in range(lo, hi + 1)}
                sig = "write-carries-other-registers-value" if w["data"] in olegal else "write-carries-unrequested-value"
                return fail(f"{REG_NAME[a]} write committed in cycle {w['t_commit']} (command seen {w['t_seen']}) "
                            f"carries 0x{w['data']:02x}; values requested for it in cycles {lo}..{hi}: "
                            f"{sorted(hex(v) for v in legal)}", signature=sig)
            if not w.get("dir_in_stp"):
                # a write the PHY committed although DIR rose in its STP cycle is retried by a link that treats
                # it as aborted: the retry is the same transaction and may carry the value latched at its start
                prev_commit = w["t_commit"]

        # ---- bounded liveness -------------------------------------------------------------------------------
        if drv.ended != "quiet":
            if drv.tx is not None:
                return fail(f"transmission requested in cycle {drv.tx['t_start']} still pending at the cap "
                            f"({cap} cycles; PHY state {P.STATE_NAMES[phy.state]})",
                            signature="transmission-blocked")
            return fail(f"bus never became quiet for {K} cycles within {cap} cycles (last PHY activity "
                        f"{phy.busy_last})", signature="register-writes-never-settle")
        final = log[-1][1]
        for a in (P.FUNC_CTRL, P.OTG_CTRL):
            want = COMPOSITE[a](final)
            if phy.regs[a] != want:
                wr = [(w["t_commit"], hex(w["data"])) for w in phy.writes if w["committed"] and w["addr"] == a]
                last_change = log[-1][0]
                return fail(f"after {K} quiet cycles the PHY's {REG_NAME[a]} holds 0x{phy.regs[a]:02x}, requested "
                            f"0x{want:02x} (inputs constant since cycle {last_change}; committed writes to it {wr})",
                            signature="register-not-converged-" + REG_NAME[a])
        if any(r["t_end"] is None for r in drv.tx_log):
            return fail("a transmission never completed", signature="transmission-blocked")

        # ---- classification ---------------------------------------------------------------------------------
        inflight = [s for t, s in drv.ctl_sync_hits[0:] if s in ("CMD", "RWD", "RWS")]
        tx_starts = {r["t_start"] for r in drv.tx_log}
        near_tx = any(abs(t - u) <= 1 for t, _ in drv.ctl_sync_hits for u in tx_starts)
        committed = [w for w in phy.writes if w["committed"]]
        if inflight:
            labels.add("change-during-write")
        if near_tx:
            labels.add("change-at-tx-start")
        if any(s in ("RWD", "RWS", "CMD:regw") for _, s in phy.burst_fires):
            labels.add("write-interrupted-by-dir")
        if any(w.get("dir_in_stp") for w in phy.writes):
            labels.add("dir-in-stp-cycle")
        if {w["addr"] for w in committed} == {P.FUNC_CTRL, P.OTG_CTRL}:
            labels.add("both-registers-written")
        if len(log) >= 3 and any(log[i][1] == log[i - 2][1] for i in range(2, len(log))):
            labels.add("change-and-revert")
        if drv.tx_log:
            labels.add("with-transmission")
        if phy.events:
            labels.add("link-irregularity:" + phy.events[0][1].split(" ")[0])
        if len(phy.txs) != len(drv.tx_log):
            labels.add("transmit-command-count-differs")
        nontrivial = bool((inflight or near_tx) and committed)
        return Result(ok=True, nontrivial=nontrivial, labels=tuple(sorted(labels)))


SUBS = [Converge()]
