"""C13 — bulk OUT stream endpoints ACK exactly the data they deliver."""

import bisect

from hypothesis import strategies as st

from lunaverif.core import Sub, Result, fail
from lunaverif.simkit import CycleHarness
from lunaverif.gen import long_lists, weighted
from lunaverif.bfm.g8_ephost import EpHost, Segments, interface_ports, crc_body, PID_OUT
from lunaverif.bfm import g8_gen as G

PROPERTY = "C13"
ASSUMPTIONS = [
    "the endpoint is driven at its EndpointInterface with the strobe order/timing device.py produces: rx stream two "
    "bytes behind the wire, rx_complete/rx_invalid one cycle after the packet, rx_ready_for_response 1 (HS), 2 "
    "(FS, 12 MHz table) or 10 (FS, 60 MHz table) cycles after rx_complete, one cycle more for good packets of <= 8 "
    "bytes when the device has a control endpoint (its setup decoder restarts the shared timer; `ctrl` flag)",
    "legal host: DATA0/DATA1 toggle advanced on every ACK it sees; a packet is repeated with the same toggle after a "
    "NAK, a timeout or a lost ACK (the only source of repeated toggles); payloads are 0..max_packet_size bytes; the "
    "next token comes after the handshake window",
    "a good new-toggle packet must be ACKed when, at its arrival, undelivered bytes + its length <= buffer size "
    "(two cycles of read-pointer lag allowed); PING must be ACKed / NAKed when the free space computed the same "
    "way is clearly >= / < max_packet_size, either answer is accepted inside the lag window",
    "a zero-length packet ends a transfer (the next byte is a transfer's first) but adds no byte",
]

# (max_packet_size, buffer_size or None (= 2*mps-1), endpoint number)
CONFIGS = [(mps, buf, ep) for mps, ep in ((8, 2), (16, 5), (64, 1)) for buf in (mps, None, 2 * mps, 3 * mps)]


def ops_strategy(ep, mps):
    sizes = st.one_of(st.sampled_from([0, 1, mps - 1, mps, mps, mps]), st.integers(0, mps))
    payload = sizes.flatmap(lambda n: st.lists(G.byte, min_size=n, max_size=n))
    out = st.fixed_dictionaries(dict(
        op=st.just("out"), payload=payload,
        corrupt=st.one_of(st.none(), st.none(),
                          st.tuples(st.sampled_from(["flip", "crc", "trunc"]), st.integers(0, 2000)).map(list)),
        ack_lost=weighted([(False, 2), (True, 1)]), retry=weighted([(True, 3), (False, 1)]),
        lead=st.integers(1, 3), period=weighted([(1, 4), (2, 2), (3, 1), (5, 1)]),
        jitter=st.lists(st.integers(0, 2), max_size=3), trail=st.integers(0, 2),
        tok2data=st.integers(2, 12), gap=G.gap))
    ping = st.fixed_dictionaries(dict(op=st.just("ping"), gap=G.gap))
    bg = st.fixed_dictionaries(dict(op=st.just("bg"), ev=G.background(ep, "out")))
    return st.one_of(out, out, out, out, out, ping, bg)


class Oracle:
    """Device-side expectation built from the transaction log (independent of the gateware)."""

    def __init__(self, mps, N):
        self.mps, self.N = mps, N
        self.dt = 0
        self.new_transfer = True
        self.expected = []          # (byte, first, last)
        self.commits = []           # (cycle, cumulative accepted bytes)
        self.total = 0
        self.owner = []             # log index of the packet each expected byte belongs to
        self.packets = []           # accepted payloads
        self.history = []           # (log index, outcome) of every OUT transaction to this endpoint

    def accept(self, payload, cycle, j=None):
        n = len(payload)
        for i, b in enumerate(payload):
            self.expected.append((b, int(i == 0 and self.new_transfer), int(i == n - 1 and n < self.mps)))
            self.owner.append(j)
        self.new_transfer = n < self.mps
        self.packets.append(list(payload))
        self.total += n
        self.commits.append((cycle, self.total))
        self.dt ^= 1

    def accepted_before(self, cycle):
        i = bisect.bisect_left(self.commits, (cycle, -1))
        return self.commits[i - 1][1] if i else 0


class StreamOutSub(Sub):
    name = "stream-out"
    budget = {"quick": 2000, "thorough": 40000}
    shrink_budget = 500
    rule = ("USBStreamOutEndpoint (mps 8/16/64 x buffer mps / 2*mps-1 (default) / 2*mps / 3*mps) at its "
            "EndpointInterface under a reactive host model: OUT packets 0..mps bytes with the host's toggle, corrupted "
            "(bit flip / CRC / truncation), retried after NAK or timeout, repeated after a lost ACK, PINGs, background "
            "traffic; response delay 1 / 2 / 10 cycles (HS, FS@12 MHz, FS@60 MHz: before, with, after the delayed "
            "commit); consumer ready from always-on to never (drained at the end). Oracle: exactly one ACK/NAK in the "
            "response slot of every good packet and PING, none otherwise; the consumer's byte stream (data, first, "
            "last) equals the concatenation of the payloads of ACKed new-toggle packets (first on a transfer's first "
            "byte, last on the final byte of a short packet); no NAK when the packet provably fits; PING answer "
            "consistent with free space. Non-trivial = a packet arrives with < mps free AND a corrupted packet AND a "
            "repeated toggle.")

    def setup(self):
        self.h = {}

    def harness(self, cfg):
        if cfg not in self.h:
            from luna.gateware.usb.usb2.endpoints.stream import USBStreamOutEndpoint
            mps, buf, ep = CONFIGS[cfg]
            dut = USBStreamOutEndpoint(endpoint_number=ep, max_packet_size=mps, buffer_size=buf)
            ins, outs = interface_ports(dut.interface)
            ins.update(o_ready=dut.stream.ready)
            outs.update(o_valid=dut.stream.valid, o_data=dut.stream.payload, o_first=dut.stream.first,
                        o_last=dut.stream.last)
            self.h[cfg] = CycleHarness(dut, ins, outs, domain="usb")
        return self.h[cfg]

    def strategy(self):
        def case(cfg):
            mps, buf, ep = CONFIGS[cfg]
            return st.fixed_dictionaries(dict(
                cfg=st.just(cfg), d=G.delay, ctrl=weighted([(True, 2), (False, 1)]),
                ready=st.one_of(G.ready_segments, st.just([[0, 1]]),
                                st.integers(3, 40).map(lambda k: [[1, 1], [0, k]]),     # slow trickle
                                st.integers(3, 40).map(lambda k: [[1, 1], [0, k]]),
                                G.segments(weighted([(0, 3), (1, 1)]), max_dwell=80, max_seg=8),
                                st.lists(st.tuples(weighted([(0, 2), (1, 1)]), st.integers(1, 3 * mps)).map(list),
                                         min_size=2, max_size=8)),
                ops=long_lists(ops_strategy(ep, mps), min_size=1, max_size=40, average=20)))
        return weighted([(i, 4 if CONFIGS[i][0] == 8 else (2 if CONFIGS[i][0] == 16 else 1))
                         for i in range(len(CONFIGS))]).flatmap(case)

    # ---------------------------------------------------------------------------------------------------------
    def run(self, case):
        cfg = case["cfg"]
        mps, buf, ep = CONFIGS[cfg]
        N = buf if buf is not None else 2 * mps - 1
        d = case["d"]
        rdy = Segments(case["ready"])
        ready_at = []
        hst = dict(i=0, ht=0, pending=None, last=None, drain=False)
        sent = {}                     # log index -> dict(toggle, payload(wire), op)

        def side(t, prev, host):
            r = 1 if hst["drain"] else rdy.at(t)
            ready_at.append(r)
            return dict(o_ready=r)

        def response_of(host, rec, j):
            nh1 = host.log[j + 1]["nh0"] if j + 1 < len(host.log) else len(host.hs_out)
            return host.hs_out[rec["nh0"]:nh1]

        def more(host):
            # digest the previous OUT transaction of ours (host-visible result)
            if hst["last"] is not None:
                j, op, payload = hst["last"]
                hs = response_of(host, host.log[j], j)
                kinds = [k for _, k in hs]
                if kinds == ["ack"] and not op["ack_lost"]:
                    hst["ht"] ^= 1
                    hst["pending"] = None
                elif kinds == ["ack"]:
                    hst["pending"] = payload                      # ACK lost: repeat with the same toggle
                else:
                    hst["pending"] = payload if op["retry"] else None
                hst["last"] = None
            if hst["i"] >= len(case["ops"]):
                if hst["drain"]:
                    return None
                hst["drain"] = True
                return dict(k="idle", n=N + 8, gap=0)
            op = case["ops"][hst["i"]]
            hst["i"] += 1
            if op["op"] == "bg":
                return op["ev"]
            if op["op"] == "ping":
                return dict(k="ping", ep=ep, gap=op["gap"])
            payload = hst["pending"] if hst["pending"] is not None else op["payload"]
            body = crc_body(payload, op["corrupt"])
            j = len(host.log)
            hst["last"] = (j, op, payload)
            sent[j] = dict(toggle=hst["ht"], body=body, op=op)
            return dict(k="out", ep=ep, pid=PID_OUT, dpid=hst["ht"], data=body, lead=op["lead"], period=op["period"],
                        jitter=op["jitter"], trail=op["trail"], tok2data=op["tok2data"], gap=op["gap"])

        host = EpHost([], d=d, side=side, more=more, ctrl=case["ctrl"])
        trace = self.harness(cfg).run_driver(host, 600000)
        if host.done_at is None:
            raise RuntimeError("host script did not finish")
        if host.tx.packets:
            return fail(f"OUT endpoint transmitted a data packet: {host.tx.packets[0]}", signature="unexpected-packet")

        beats = [(t, o.o_data, o.o_first, o.o_last) for t, o in enumerate(trace) if o.o_valid and ready_at[t]]
        beat_cycles = [b[0] for b in beats]

        def consumed_before(c):
            return bisect.bisect_left(beat_cycles, c)

        orc = Oracle(mps, N)
        labels = set()
        deferred = []         # space-related verdicts: only meaningful if the ACKed data really is what was delivered
        tight = corrupt = repeated = False
        log = host.log
        for j, rec in enumerate(log):
            hs = response_of(host, rec, j)
            if j in sent:
                s = sent[j]
                body, tog = s["body"], s["toggle"]
                what = (f"OUT DATA{tog} {max(0, len(body) - 2)} bytes (rx from cycle {rec['A']}, end T={rec['T']}, "
                        f"d={d}{'+ctrl' if case['ctrl'] else ''}, mps {mps}, buffer {N})")
                if not rec.get("crc_ok"):
                    corrupt = True
                    orc.history.append((j, "discarded" if len(body) > 2 else "nothing"))
                    if hs:
                        return fail(f"{what}: corrupted packet answered with {hs}", signature="handshake-for-corrupt-packet")
                    continue
                payload = body[:-2]
                if len(hs) != 1 or hs[0][0] != rec["t_rdy"]:
                    return fail(f"{what}: handshake requests {hs}; exactly one expected in cycle {rec['t_rdy']}",
                                signature="no-handshake" if not hs else "handshake-outside-response-slot")
                kind = hs[0][1]
                if kind not in ("ack", "nak"):
                    return fail(f"{what}: answered with {kind}", signature="unexpected-stall")
                occ_hi = orc.accepted_before(rec["A"]) - consumed_before(rec["A"] - 2)
                if N - occ_hi < mps:
                    tight = True
                if tog == orc.dt:
                    if kind == "ack":
                        orc.accept(payload, rec["T"] + 3, j)
                        orc.history.append((j, "accepted" if payload else "accepted-zlp"))
                        labels.add("ack")
                    else:
                        labels.add("nak")
                        orc.history.append((j, "discarded" if payload else "nothing"))
                        if occ_hi + len(payload) <= N:
                            deferred.append(fail(f"{what}: NAKed although at most {occ_hi} undelivered bytes were buffered",
                                                 signature="spurious-nak"))
                else:
                    repeated = True
                    labels.add("repeat-" + kind)
            elif rec["k"] == "ping" and rec["ep"] == ep:
                if len(hs) != 1 or hs[0][0] != rec["t_rdy"] or hs[0][1] not in ("ack", "nak"):
                    return fail(f"PING (token end {rec['T']}): handshake requests {hs}; exactly one ACK/NAK expected in "
                                f"cycle {rec['t_rdy']}", signature="bad-ping-response")
                t = rec["t_rdy"]
                acc = orc.accepted_before(t)
                occ_hi, occ_lo = acc - consumed_before(t - 2), acc - consumed_before(t + 1)
                if hs[0][1] == "nak" and N - occ_hi >= mps:
                    deferred.append(fail(f"PING at {t} NAKed although >= {N - occ_hi} of {N} bytes are free (mps {mps})",
                                         signature="ping-nak-with-space"))
                if hs[0][1] == "ack" and N - occ_lo < mps:
                    deferred.append(fail(f"PING at {t} ACKed although only {N - occ_lo} of {N} bytes are free (mps {mps})",
                                         signature="ping-ack-without-space"))
                labels.add("ping-" + hs[0][1])
            elif hs:
                return fail(f"handshake request {hs[0]} during a {rec['k']} event (ep {rec.get('ep')})",
                            signature="unsolicited-handshake")

        # ---- the delivered stream ----------------------------------------------------------------------------------
        got = [(b, f, l) for _, b, f, l in beats]
        exp = orc.expected
        if [g[0] for g in got] != [e[0] for e in exp]:
            gd, ed = [g[0] for g in got], [e[0] for e in exp]
            k = next((i for i, (a, b) in enumerate(zip(gd, ed)) if a != b), min(len(gd), len(ed)))
            # is the delivered stream the ACKed packets with some whole packets missing?
            pk = orc.packets
            reach = {0}
            for pl in pk:
                nxt = set(reach)
                for pos in reach:
                    if gd[pos:pos + len(pl)] == pl:
                        nxt.add(pos + len(pl))
                reach = nxt
            if len(gd) < len(ed) and len(gd) in reach:
                # the suspected mechanism needs a response strobe later than the delayed complete_out (T+3)
                late = any(r.get("t_rdy") and r["t_rdy"] > r["T"] + 3 for r in log if r["k"] == "out" and r["ep"] == ep)
                sig = "acked-discarded-packet-late-response" if late else "acked-data-not-delivered"
            elif len(gd) > len(ed):
                sig = "unacked-data-delivered"
            else:
                sig = "stream-mismatch"
            return fail(f"delivered stream differs from the ACKed payloads at byte {k}: delivered {len(gd)} bytes "
                        f"{gd[max(0, k - 3):k + 5]}, ACKed {len(ed)} bytes {ed[max(0, k - 3):k + 5]} (d={d}{'+ctrl' if case['ctrl'] else ''}, "
                        f"mps {mps}, buffer {N})", signature=sig)
        for i, (g, e) in enumerate(zip(got, exp)):
            if g[1] != e[1]:
                # what happened between the previous delivered packet and this one?
                own = orc.owner[i]
                between = []
                for jj, outcome in reversed(orc.history):
                    if jj >= own:
                        continue
                    if outcome == "accepted":
                        break
                    between.append(outcome)
                sig = "missing-first" if e[1] else "spurious-first"
                if "discarded" in between:
                    sig = "first-flag-follows-discarded-packet"
                elif "accepted-zlp" in between and e[1]:
                    sig = "first-missing-after-zlp"
                return fail(f"byte {i} ({g[0]:#x}, delivered in cycle {beats[i][0]}): first={g[1]}, expected {e[1]}; since "
                            f"the previous delivered packet: {between[::-1] or 'nothing'} (d={d}, mps {mps})", signature=sig)
            if g[2] != e[2]:
                return fail(f"byte {i} ({g[0]:#x}, delivered in cycle {beats[i][0]}): last={g[2]}, expected {e[2]} "
                            f"(d={d}, mps {mps})", signature="missing-last" if e[2] else "spurious-last")
        if deferred:
            return deferred[0]
        if tight:
            labels.add("tight-space")
        if corrupt:
            labels.add("corrupt")
        if repeated:
            labels.add("repeated-toggle")
        labels.add(f"d={d}{'+ctrl' if case['ctrl'] else ''}")
        labels.add(f"mps={mps}/buf={N}")
        return Result(ok=True, nontrivial=tight and corrupt and repeated, labels=tuple(sorted(labels)))


SUBS = [StreamOutSub()]
