"""C34 — word alignment places COM sequences on word boundaries without corrupting data."""

from hypothesis import strategies as st

from lunaverif.core import Sub, Result, fail, HarnessError
from lunaverif.gen import long_lists, weighted
from lunaverif.simkit import CycleHarness
from lunaverif.ref import g3_usb3 as u3

PROPERTY = "C34"
ASSUMPTIONS = [
    "alignment sequences are exactly four COMs long (a run of five or more COMs has no unique alignment and is not "
    "generated); for RxPacketAligner the sequence is SHP SHP SHP EPF or SLC SLC SLC EPF",
    "words not marked valid carry no symbols (they are skipped on both sides, whatever is on the data lines)",
    "the first output word after reset (built from the reset contents of the history register) is not judged",
]

_NONCOM_K = [k for k in u3.K_SYMBOLS if k != u3.COM]
MARKERS = {
    "word": [[(u3.COM, 1)] * 4],
    "packet": [[(u3.SHP, 1)] * 3 + [(u3.EPF, 1)], [(u3.SLC, 1)] * 3 + [(u3.EPF, 1)]],
}


def _rand_sym(bits, j, dut):
    """deterministic pseudo-random symbol j of a data run described by the integer `bits`."""
    x = (bits + 0x9E3779B97F4A7C15 * (j + 1)) & 0xFFFFFFFFFFFFFFFF
    x ^= x >> 29
    x = (x * 0xBF58476D1CE4E5B9) & 0xFFFFFFFFFFFFFFFF
    x ^= x >> 32
    sel = x & 15
    byte = (x >> 8) & 0xFF
    if sel < 9:
        return (byte, 0)
    if sel < 11:
        return (u3.COM, 0)                    # the COM byte as *data* (D28.5): must not align anything
    if sel < 13:
        return (_NONCOM_K[byte % len(_NONCOM_K)], 1)
    if sel == 13:
        return (0xFB if dut == "packet" else 0x00, 0)   # SHP's byte as data
    if dut == "packet":
        return (u3.COM, 1)                    # COM is an ordinary K symbol for the packet aligner
    return (_NONCOM_K[byte % len(_NONCOM_K)], 1)


def build_stream(dut, segs):
    """-> (symbols, invalid_before) ; invalid_before[w] = number of not-valid words inserted before valid word w."""
    S = []
    inv = {}
    markers = MARKERS[dut]
    lead = {m[0] for m in markers}
    for kind, n, bits in segs:
        if kind == 0:                                   # data run of n symbols
            for j in range(n):
                S.append(_rand_sym(bits, j, dut))
        elif kind in (1, 2):                            # full alignment sequence / truncated look-alike
            m = markers[bits % len(markers)]
            if dut == "word":
                seq = m[:4] if kind == 1 else m[:1 + n % 3]
                if S and S[-1] == (u3.COM, 1):
                    S.append((0x4A, 0))                 # keep COM runs at exactly the chosen length
            else:
                if kind == 1:
                    seq = m
                else:                                   # SHP SHP EPF / SHP SHP SHP / 4th symbol wrong / ctrl bit wrong
                    seq = [m[:2] + m[3:], m[:3], m[:3] + [(u3.END, 1)], m[:3] + [(u3.EPF, 0)]][n % 4]
            S.extend(seq)
            if dut == "word":
                S.append(_rand_sym(bits, 99, dut) if _rand_sym(bits, 99, dut) != (u3.COM, 1) else (0x4A, 0))
        else:                                           # a not-valid word at the next word boundary
            w = (len(S) + 3) // 4
            inv[w] = inv.get(w, 0) + 1 + n % 2
    while len(S) % 4:
        S.append((0x4A, 0))
    return S, inv


def find_sequences(S, dut):
    pats = MARKERS[dut]
    return [p for p in range(len(S) - 3) if S[p:p + 4] in pats]


_SEG = st.tuples(weighted([(0, 8), (1, 5), (2, 2), (3, 2)]), st.integers(0, 13), st.integers(0, (1 << 48) - 1))


class AlignerSub(Sub):
    name = "aligner"
    budget = {"quick": 10000, "thorough": 150000}
    rule = ("symbol streams built from data runs (D/K mix incl. the COM byte as data), exactly-four-COM sequences at "
            "every byte offset, 1-3-COM look-alikes, later sequences at other offsets, not-valid words (some carrying "
            "COM junk) into RxWordAligner (and RxPacketAligner with SHP/SLC starts and damaged look-alikes); oracle: "
            "sequences located by scanning the input symbols; from the word presenting a sequence on, output valid "
            "words must be the input symbols cut into 4s starting at the sequence (previous cutting continues "
            "unchanged up to that word), one output word per valid input word, alignment_offset = sequence offset "
            "mod 4; non-trivial = >=2 sequences at different offsets incl. a non-zero one, >=8 symbols after a "
            "sequence, >=1 not-valid word")
    shrink_budget = 800

    def setup(self):
        self.h = {}

    def harness(self, dut_name):
        if dut_name not in self.h:
            from luna.gateware.usb.usb3.physical import alignment
            dut = {"word": alignment.RxWordAligner, "packet": alignment.RxPacketAligner}[dut_name]()
            ins = dict(valid=dut.sink.valid, data=dut.sink.data, ctrl=dut.sink.ctrl)
            outs = dict(ovalid=dut.source.valid, odata=dut.source.data, octrl=dut.source.ctrl,
                        offset=dut.alignment_offset, iready=dut.sink.ready)
            self.h[dut_name] = CycleHarness(dut, ins, outs, domain="ss")
        return self.h[dut_name]

    def strategy(self):
        return st.fixed_dictionaries(dict(
            dut=weighted([("word", 3), ("packet", 1)]),
            segs=long_lists(_SEG, min_size=1, max_size=60, average=18),
        ))

    def run(self, case):
        dut = case["dut"]
        S, inv = build_stream(dut, case["segs"])
        S = S + [(0x4A, 0)] * 8                     # two trailing data words flush the history register
        nwords = len(S) // 4
        script = []
        for w in range(nwords):
            for j in range(inv.get(w, 0)):
                junk = 0xBCBCBCBC if dut == "word" else (0xF7FBFBFB if j % 2 else 0xF7FEFEFE)
                script.append(dict(valid=0, data=junk, ctrl=0xF))
            d, c = u3.syms_to_word(S[4 * w:4 * w + 4])
            script.append(dict(valid=1, data=d, ctrl=c))
        script.append(dict(valid=0, data=0, ctrl=0))
        trace = self.harness(dut).run_script(script)

        # ---- expected word list, from the statement -------------------------------------------------
        seqs = find_sequences(S, dut)
        expected = []                               # (word symbols, offset) for valid input words m >= 1
        s = 0
        presented = []                              # (sequence position, output word index)
        k = 0
        for m in range(1, nwords):
            base = 4 * (m - 1)
            if k < len(seqs) and seqs[k] < base:
                raise HarnessError(f"generator produced overlapping alignment sequences at {seqs}")
            if k < len(seqs) and seqs[k] <= base + 3:
                s = seqs[k] - base
                presented.append((seqs[k], m))
                k += 1
            expected.append((S[base + s:base + s + 4], s))
        out = [o for o in trace if o.ovalid]
        if any(not o.iready for o in trace):
            return fail("sink.ready dropped (the aligner must always accept)", signature="sink-not-ready")
        if len(out) != nwords:
            return fail(f"{nwords} valid input words produced {len(out)} valid output words",
                        signature="word-count-mismatch")
        fmt = lambda ss: " ".join(("K" if kk else "D") + f"{b:02x}" for b, kk in ss)
        for m in range(1, nwords):
            exp, off = expected[m - 1]
            got = u3.word_to_syms(out[m].odata, out[m].octrl)
            if [tuple(x) for x in got] != [tuple(x) for x in exp]:
                at_seq = any(pm == m for _, pm in presented)
                after = any(pm < m for _, pm in presented)
                sig = ("sequence-not-word-aligned" if at_seq else
                       "data-after-sequence-misaligned" if after else "data-before-first-sequence-corrupted")
                return fail(f"{dut} aligner, output word {m}: expected [{fmt(exp)}] (input symbols {4*(m-1)+off}.."
                            f"{4*(m-1)+off+3}, offset {off}) got [{fmt(got)}]; sequences at symbol positions {seqs}",
                            signature=sig)
            if out[m].offset != off:
                return fail(f"{dut} aligner, output word {m}: alignment_offset={out[m].offset}, expected {off}; "
                            f"sequences at {seqs}", signature="alignment-offset-misreported")
        offsets = [p % 4 for p in seqs]
        labels = {f"dut={dut}"}
        for o in set(offsets):
            labels.add(f"seq-offset={o}")
        changes = sum(1 for a, b in zip(offsets, offsets[1:]) if a != b)
        if changes:
            labels.add("offset-change")
        if any(a > b for a, b in zip(offsets, offsets[1:])):
            labels.add("offset-decrease")
        if inv:
            labels.add("invalid-words")
        if not seqs:
            labels.add("no-sequence")
        long_after = any((seqs[i + 1] if i + 1 < len(seqs) else len(S) - 8) - p >= 12 for i, p in enumerate(seqs))
        nt = len(set(offsets)) >= 2 and any(offsets) and long_after and bool(inv)
        return Result(ok=True, nontrivial=nt, labels=tuple(sorted(labels)))


SUBS = [AlignerSub()]
