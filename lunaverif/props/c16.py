"""C16 — isochronous OUT endpoints deliver only whole, CRC-valid packets (drop whole packets when out of space)."""

from hypothesis import strategies as st

from lunaverif.core import Sub, Result, fail
from lunaverif.simkit import CycleHarness
from lunaverif.gen import long_lists, weighted
from lunaverif.bfm.g8_ephost import EpHost, Segments, interface_ports, crc_body, PID_OUT
from lunaverif.bfm import g8_gen as G

PROPERTY = "C16"
ASSUMPTIONS = [
    "the endpoint is driven at its EndpointInterface with the strobe order/timing device.py produces: rx stream two "
    "bytes behind the wire, rx_complete/rx_invalid one cycle after the packet, response delay 1/2/10 cycles",
    "host packets carry 0..max_packet_size payload bytes; the next token ends >= 6 cycles after a data packet",
    "a packet must be delivered when, at the arrival of its first byte, the free space computed from the observed "
    "stream (allowing two cycles of read-pointer lag) is >= max_packet_size (the documented drop criterion); when "
    "less is free either outcome is accepted, but never a partial payload",
    "zero-length packets carry no bytes and therefore cannot appear in the byte stream",
]

# (max_packet_size, buffer_size or None (= 2*mps), endpoint number)
CONFIGS = [(mps, buf, ep) for mps, ep in ((8, 1), (16, 4), (64, 2)) for buf in (mps, None, 3 * mps)]


def out_mine(ep, mps):
    sizes = st.one_of(st.sampled_from([0, 1, 2, mps - 1, mps, mps]), st.integers(0, mps))
    payload = sizes.flatmap(lambda n: st.lists(G.byte, min_size=n, max_size=n))
    corrupt = st.one_of(st.none(), st.none(), st.none(),
                        st.tuples(st.sampled_from(["flip", "crc", "trunc"]), st.integers(0, 2000)).map(list))
    return st.fixed_dictionaries(dict(k=st.just("out"), ep=st.just(ep), pid=st.just(PID_OUT), mine=st.just(True),
                                      **G._data_fields(payload, corrupt)))


def stream_ports(dut):
    return dict(o_valid=dut.stream.valid, o_payload=dut.stream.payload.as_value())


def decode_beats(trace, ready_at):
    """[(cycle, data, first, last)] for every cycle with valid & ready (Packet layout: first, last, data)."""
    beats = []
    for t, o in enumerate(trace):
        if o.o_valid and ready_at[t]:
            v = o.o_payload
            beats.append((t, (v >> 2) & 0xFF, v & 1, (v >> 1) & 1))
    return beats


class IsoOutSub(Sub):
    name = "iso-out"
    budget = {"quick": 2000, "thorough": 30000}
    shrink_budget = 400
    rule = ("USBIsochronousStreamOutEndpoint (mps 8/16/64 x buffer mps/2*mps/3*mps) at its EndpointInterface: OUT "
            "packets 0..mps bytes, good / corrupted (bit flip, CRC xor, truncation), any data PID, byte spacing 1..5 "
            "cycles, response delay 1/2/10, background traffic (other endpoints' OUT data on the shared rx stream, same "
            "number IN, SOF, foreign device), consumer ready from always-on to long stalls. Oracle: the beats taken by "
            "the consumer parse into first..last frames, each equal to a CRC-valid non-empty packet sent to this "
            "endpoint and committed before the frame's first beat, in order, none twice; a valid packet arriving with "
            ">= mps free must be delivered. Non-trivial = a valid packet arrives with 0 < free < len + mps.")

    def setup(self):
        self.h = {}

    def harness(self, cfg):
        if cfg not in self.h:
            from luna.gateware.usb.usb2.endpoints.isochronous_stream_out import USBIsochronousStreamOutEndpoint
            mps, buf, ep = CONFIGS[cfg]
            dut = USBIsochronousStreamOutEndpoint(endpoint_number=ep, max_packet_size=mps, buffer_size=buf)
            ins, outs = interface_ports(dut.interface)
            ins.update(o_ready=dut.stream.ready)
            outs.update(stream_ports(dut))
            self.h[cfg] = CycleHarness(dut, ins, outs, domain="usb")
        return self.h[cfg]

    def strategy(self):
        def case(cfg):
            mps, buf, ep = CONFIGS[cfg]
            ev = st.one_of(out_mine(ep, mps), out_mine(ep, mps), out_mine(ep, mps), G.background(ep, "out"))
            return st.fixed_dictionaries(dict(
                cfg=st.just(cfg), d=G.delay, ready=G.ready_segments,
                ev=long_lists(ev, min_size=1, max_size=24, average=9)))
        return weighted([(i, 4 if CONFIGS[i][0] == 8 else (2 if CONFIGS[i][0] == 16 else 1))
                         for i in range(len(CONFIGS))]).flatmap(case)

    def run(self, case):
        cfg = case["cfg"]
        mps, buf, ep = CONFIGS[cfg]
        N = buf if buf is not None else 2 * mps
        rdy = Segments(case["ready"])
        ready_at = []
        state = dict(drain=False)

        def side(t, prev, host):
            r = 1 if state["drain"] else rdy.at(t)
            ready_at.append(r)
            return dict(o_ready=r)

        def more(host):
            # after the script: let the consumer drain the buffer
            if state["drain"]:
                return None
            state["drain"] = True
            return dict(k="idle", n=N + 8, gap=0)

        host = EpHost(case["ev"], d=case["d"], side=side, more=more)
        trace = self.harness(cfg).run_driver(host, 400000)
        if host.done_at is None:
            raise RuntimeError("host script did not finish")
        if host.hs_out or host.tx.packets:
            return fail(f"isochronous OUT endpoint produced handshakes {host.hs_out[:2]} / packets {host.tx.packets[:1]}",
                        signature="unexpected-response")

        beats = decode_beats(trace, ready_at)
        # deliverable packets: CRC-valid, non-empty, OUT to this endpoint
        sent = []
        for rec in host.log:
            if rec["k"] == "out" and rec["ep"] == ep and case["ev"][rec["i"]].get("pid", PID_OUT) == PID_OUT \
                    and rec.get("crc_ok"):
                body = case["ev"][rec["i"]]["data"]
                if len(body) > 2:
                    sent.append(dict(data=list(body[:-2]), T=rec["T"], A=rec["A"], commit=rec["T"] + 3))

        # ---- frames ------------------------------------------------------------------------------------------
        frames, cur = [], None
        for (t, b, f, l) in beats:
            if cur is None:
                if not f:
                    return self._bad(sent, [b], t, "byte without `first` outside a frame", case)
                cur = dict(t=t, data=[])
            elif f:
                return self._bad(sent, cur["data"], cur["t"], f"frame started in cycle {cur['t']} is cut short by a new "
                                 f"`first` in cycle {t}", case)
            cur["data"].append(b)
            if l:
                frames.append(cur)
                cur = None
        if cur is not None:
            return self._bad(sent, cur["data"], cur["t"], f"frame started in cycle {cur['t']} never gets `last` "
                             f"(buffer drained)", case)

        # ---- each frame is one of the sent packets, in order ----------------------------------------------------
        k = 0
        delivered = []          # indices into sent
        for fr in frames:
            j = k
            while j < len(sent) and not (sent[j]["data"] == fr["data"] and sent[j]["commit"] < fr["t"] + 1):
                j += 1
            if j == len(sent):
                return self._bad(sent[k:], fr["data"], fr["t"], f"frame of {len(fr['data'])} bytes taken from cycle "
                                 f"{fr['t']} is not a packet sent (and committed) before it", case)
            delivered.append(j)
            k = j + 1

        # ---- drops must be justified by lack of space -----------------------------------------------------------------
        beat_cycles = [t for t, *_ in beats]
        tight = False
        labels = set()
        dset = set(delivered)
        import bisect
        for j, p in enumerate(sent):
            # first byte reaches the FIFO two cycles after its rx.next strobe; use the packet start as a safe bound
            w = p["A"]
            written = sum(len(sent[i]["data"]) for i in dset if sent[i]["commit"] <= w and i != j)
            read_hi = bisect.bisect_right(beat_cycles, w + 8)       # optimistic (most reads)
            read_lo = bisect.bisect_left(beat_cycles, max(0, w - 2))  # pessimistic (fewest reads)
            free_lo = N - (written - min(read_lo, written))
            free_hi = N - max(0, written - read_hi)
            if 0 < free_lo < len(p["data"]) + mps:
                tight = True
            if j not in dset:
                labels.add("dropped")
                if free_lo >= mps:
                    return fail(f"valid {len(p['data'])}-byte packet (rx starts cycle {p['A']}) was dropped although "
                                f">= {free_lo} of {N} bytes were free (mps {mps})", signature="dropped-with-space")
        if tight:
            labels.add("tight-space")
        labels.add(f"d={case['d']}")
        labels.add(f"mps={mps}/buf={N}")
        if any(not c.get("crc_ok", True) for c in host.log if c["k"] == "out" and c["ep"] == ep):
            labels.add("corrupt")
        return Result(ok=True, nontrivial=tight, labels=tuple(sorted(labels)))

    @staticmethod
    def _bad(candidates, frag, t, why, case):
        """A fragment that is a proper contiguous piece of a sent packet = truncation (the suspected defect)."""
        sig = "stream-mismatch"
        for p in candidates:
            d = p["data"]
            n = len(frag)
            if 0 < n < len(d) and any(d[i:i + n] == frag for i in range(len(d) - n + 1)):
                sig = "partial-packet-delivered"
                why += f"; the {n} byte(s) {frag[:8]} are a piece of the {len(d)}-byte packet received from cycle {p['A']}"
                break
        return fail(f"{why} (d={case['d']})", signature=sig)


SUBS = [IsoOutSub()]
