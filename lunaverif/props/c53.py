"""C53 — HyperRAM transactions use the correct command and never contend the bus."""

from hypothesis import strategies as st

from lunaverif.core import Sub, Result, fail
from lunaverif.gen import weighted
from lunaverif.simkit import CycleHarness

PROPERTY = "C53"
ASSUMPTIONS = [
    "the user asserts start_transfer (1..5 cycles, control inputs stable while it is high) only after it has seen "
    "idle high in an earlier cycle; final_word and write_data follow read_ready/write_ready with one cycle of "
    "delay (a FIFO/counter as in applets/hyperram_diagnostic.py)",
    "memory model = HyperRAM in its default fixed 2x-latency mode (the only mode the gateware implements: "
    "HIGH_LATENCY_CLOCKS = 14): RWDS is driven from CS assertion through the command and 0..8 clocks beyond, read "
    "data starts no earlier than bus clock 17 (3 command clocks + 14 latency clocks counted from the third command "
    "clock) and may be delayed further / have gaps inside the burst; the memory's outputs reach phy.*.i 1..3 "
    "cycles after the clock they belong to, word-aligned or shifted by half a clock",
    "latency lower bound asserted for memory writes: first write word not before bus clock 16 (the most lenient "
    "reading: 14 latency clocks counted from the second command clock); register writes have no latency",
    "a bus clock is a cycle with cs=1 and clk_en=1; the command phase is the first three bus clocks",
]

FIRST_READ_CLOCK = 17
MIN_WRITE_CLOCK = 16


def ca_words(addr, reg, write, single):
    """48-bit command/address per the HyperBus specification, as three 16-bit words (first on the bus first)."""
    ca = ((0 if write else 1) << 47) | ((1 if reg else 0) << 46) | ((0 if single else 1) << 45)
    ca |= ((addr >> 3) & ((1 << 29) - 1)) << 16
    ca |= addr & 7
    return [(ca >> 32) & 0xFFFF, (ca >> 16) & 0xFFFF, ca & 0xFFFF]


class Driver:
    """User logic + memory BFM.  Decisions for cycle t use only DUT outputs of cycles < t."""

    def __init__(self, case):
        self.case = case
        self.txns = case["txns"]
        self.i = -1
        self.state = "next"
        self.inputs = []             # per-cycle record of what was driven
        self.plan = []               # per txn: dict(T=start cycle, ...)
        self.cur = dict(addr=0, reg=0, wr=0, single=0, start=0, final=0, wdata=0, rwds_i=0, dq_i=0)
        self.line = []               # memory output delay line of (half0, half1)
        self.prev_half = (0, None, False)
        self.mem = None
        self.done = False
        self.tail = 0
        self.seen_idle = False

    # ---- memory ---------------------------------------------------------------------------------
    def mem_emit(self, prev):
        """half-slot pair produced by the memory for the bus activity of the previous cycle"""
        m = self.mem
        idle_lvl = self.case["idle_rwds"]
        if prev is None or not prev.cs or m is None:
            if m is not None:
                m["k"] = 0
                m["sel"] = False
            return ((idle_lvl, None, False, False), (idle_lvl, None, False, False))
        if not m["sel"]:
            m["sel"] = True
            m["k"] = 0
        if not prev.clk_en:
            lvl = m["lvl"]
            drv = m["drv_rwds"]
            return ((lvl, None, drv, False), (lvl, None, drv, False))
        m["k"] += 1
        k = m["k"]
        x = m["txn"]
        if k <= 3 + x["rel"]:
            m["lvl"], m["drv_rwds"] = x["li"], True
            return ((x["li"], None, True, False), (x["li"], None, True, False))
        if x["write"]:
            m["lvl"], m["drv_rwds"] = 0, False
            return ((0, None, False, False), (0, None, False, False))
        # read: RWDS low until data; words at scheduled clocks
        m["lvl"], m["drv_rwds"] = 0, True
        if k in m["sched"]:
            w = m["sched"][k]
            m["sent"].append(w)
            return ((1, (w >> 8) & 0xFF, True, True, m["id"]), (0, w & 0xFF, True, True, m["id"]))
        junk = x["junk"] & 0xFF
        drvdq = k >= m["first"]
        return ((0, junk if drvdq else None, True, drvdq), (0, junk ^ 0xFF if drvdq else None, True, drvdq))

    def start_mem(self, x):
        first = FIRST_READ_CLOCK + x["extra"]
        sched = {}
        k = first
        words = list(x["rwords"])
        gaps = x["rgaps"] or [0]
        n = 0
        while n < 40:
            w = words[n] if n < len(words) else (0xA500 + n) & 0xFFFF
            sched[k] = w
            k += 1 + gaps[n % len(gaps)]
            n += 1
        self.mem = dict(id=len(self.plan) - 1, k=0, sel=False, txn=x, sched=sched, first=first, sent=[], lvl=self.case["idle_rwds"],
                        drv_rwds=False)

    # ---- per-cycle step ----------------------------------------------------------------------------
    def step(self, t, prev):
        c = self.cur
        # memory side
        pair = self.mem_emit(prev)
        align = self.mem["txn"]["align"] if self.mem else 0
        if align:
            h0, h1 = self.prev_half, pair[0]
        else:
            h0, h1 = pair
        self.prev_half = pair[1]
        self.line.append((h0, h1, pair))
        rt = self.case["rt"]
        if len(self.line) > rt - 1:
            a, b, raw = self.line.pop(0)
        else:
            idle_lvl = self.case["idle_rwds"]
            a = b = (idle_lvl, None, False, False)
            raw = (a, b)
        c["rwds_i"] = (a[0] << 1) | b[0]
        c["dq_i"] = ((a[1] if a[1] is not None else 0) << 8) | (b[1] if b[1] is not None else 0)
        word_done = None
        for hh in (a, b):
            if self._pending_hi is not None:
                if hh[3]:
                    word_done = ((self._pending_hi << 8) | hh[1], hh[4])
                self._pending_hi = None
            elif hh[3] and hh[0] == 1:
                self._pending_hi = hh[1]
        emit_rwds = pair[0][2] or pair[1][2]
        emit_dq = pair[0][3] or pair[1][3]

        # user side
        if self.state == "next":
            self.i += 1
            if self.i >= len(self.txns):
                self.state = "tail"
            else:
                self.state = "wait_idle"
                self.wait = None
        if self.state == "wait_idle":
            x = self.txns[self.i]
            if self.wait is None:
                if prev is not None and prev.idle:
                    self.wait = x["pregap"]
            if self.wait is not None:
                if self.wait == 0:
                    self.state = "start"
                    self.left = x["startlen"]
                    self.plan.append(dict(T=t, x=x, delivered=[], user_final=[]))
                    self.start_mem(x)
                    self.idx = 0
                    self.rcount = 0
                    self.since = 0
                else:
                    self.wait -= 1
        x = self.txns[self.i] if 0 <= self.i < len(self.txns) else None
        if self.state in ("start", "run"):
            self.since += 1
            if prev.write_ready:
                self.idx += 1
            if prev.read_ready:
                self.rcount += 1
            n = x["n"]
            c["wdata"] = x["wdata"][self.idx % len(x["wdata"])]
            if x["write"]:
                c["final"] = int(self.idx >= n - 1)
            else:
                c["final"] = int(self.rcount >= n - 1)
            if self.state == "start":
                c.update(addr=x["addr"], reg=x["reg"], wr=x["write"], single=x["single"], start=1)
                self.left -= 1
                if self.left == 0:
                    self.state = "run"
            else:
                c["start"] = 0
                if x["scramble"]:
                    c.update(addr=x["addr"] ^ 0xFFFFFFFF, reg=1 - x["reg"], wr=1 - x["write"], single=1 - x["single"])
            if self.since > 3 and prev.idle:
                self.state = "next"
                c["start"] = 0
            elif self.since > 140:
                self.state = "tail"
                self.plan[-1]["timeout"] = True
        if self.state == "tail":
            c["start"] = 0
            self.tail += 1
            if self.tail > 6:
                return None
        if word_done is not None:
            self.plan[word_done[1]]["delivered"].append((t, word_done[0]))
        self.inputs.append(dict(c, mem_rwds=emit_rwds or a[2] or b[2], mem_dq=emit_dq or a[3] or b[3]))
        return dict(c)

    _pending_hi = None


class HyperSub(Sub):
    name = "hyperram"
    budget = {"quick": 10000, "thorough": 150000}
    rule = ("1..4 transactions (memory/register x read/write, wrapped/linear, 32-bit address, bursts of 1..6 words, "
            "start strobe 1..5 cycles, control inputs scrambled after the strobe) against a HyperRAM BFM (RWDS latency "
            "indication, read data at clock >= 17 with extra delay and intra-burst gaps, both half-clock alignments, "
            "1..3 cycles of PHY delay); oracle: command words from the HyperBus CA layout, CS continuous until the "
            "last word was transferred and released afterwards, first memory write word not before clock 16, every "
            "read word the memory delivers is reported until final_word, DQ/RWDS enables only in the command / write "
            "phases and never in a cycle where the BFM drives the line; non-trivial = a memory burst of >= 2 words")

    def setup(self):
        from luna.gateware.interface.psram import HyperBusPHY, HyperRAMInterface
        phy = HyperBusPHY()
        dut = HyperRAMInterface(phy=phy)
        ins = dict(addr=dut.address, reg=dut.register_space, wr=dut.perform_write, single=dut.single_page,
                   start=dut.start_transfer, final=dut.final_word, wdata=dut.write_data,
                   rwds_i=phy.rwds.i, dq_i=phy.dq.i)
        outs = dict(cs=phy.cs, clk_en=phy.clk_en, dq_o=phy.dq.o, dq_e=phy.dq.e, rwds_o=phy.rwds.o, rwds_e=phy.rwds.e,
                    idle=dut.idle, read_ready=dut.read_ready, write_ready=dut.write_ready, read_data=dut.read_data)
        self.h = CycleHarness(dut, ins, outs)

    def strategy(self):
        w16 = st.integers(0, 0xFFFF)
        txn = st.fixed_dictionaries(dict(
            addr=st.one_of(st.integers(0, 0xFFFFFFFF), st.sampled_from([0, 0xFFFFFFFF, 7, 8, 0x80000000, 0x00BBCCDD])),
            reg=weighted([(0, 3), (1, 1)]), write=st.integers(0, 1), single=st.integers(0, 1),
            startlen=st.integers(1, 5), pregap=st.integers(0, 4), n=weighted([(1, 2), (2, 2), (3, 2), (4, 1), (6, 1)]),
            wdata=st.lists(w16, min_size=6, max_size=6), rwords=st.lists(w16, min_size=9, max_size=9),
            rgaps=st.lists(weighted([(0, 5), (1, 2), (3, 1)]), min_size=1, max_size=4),
            extra=weighted([(0, 3), (1, 1), (2, 1), (5, 1)]), li=weighted([(1, 3), (0, 1)]), rel=st.integers(0, 8),
            align=st.integers(0, 1), scramble=st.booleans(), junk=st.integers(0, 255),
        ))
        return st.fixed_dictionaries(dict(
            txns=st.lists(txn, min_size=1, max_size=4), rt=st.integers(1, 3), idle_rwds=st.sampled_from([0, 1]),
        ))

    def run(self, case):
        drv = Driver(case)
        trace = self.h.run_driver(drv, 1200)
        ins = drv.inputs
        plan = drv.plan
        labels = set()
        burst = False
        if len(plan) != len(case["txns"]):
            return fail(f"transaction {len(plan) - 1} never returned to idle / interface never idle (cycle {len(trace)})",
                        signature="transaction-did-not-end")
        # idle before the first transaction
        bounds = [p["T"] for p in plan] + [len(trace)]
        for t in range(0, bounds[0]):
            o = trace[t]
            if o.dq_e or o.rwds_e or o.cs:
                return fail(f"cycle {t}: bus driven/selected before any request (cs={o.cs} dq.e={o.dq_e} "
                            f"rwds.e={o.rwds_e})", signature="drive-while-idle")
        for ti, p in enumerate(plan):
            x = p["x"]
            T, Tn = bounds[ti], bounds[ti + 1]
            kind = ("reg" if x["reg"] else "mem") + ("-write" if x["write"] else "-read")
            what = f"txn {ti} ({kind} addr=0x{x['addr']:08x} single_page={x['single']} n={x['n']} start@{T})"
            if p.get("timeout"):
                return fail(f"{what}: interface did not return to idle within 140 cycles", signature="transaction-did-not-end")
            exp_ca = ca_words(x["addr"], x["reg"], x["write"], x["single"])
            # --- chip select shape
            on = [t for t in range(T, Tn) if trace[t].cs]
            if not on:
                return fail(f"{what}: chip select never asserted", signature="cs-never-asserted")
            t_on, t_off = on[0], on[-1]
            if len(on) != t_off - t_on + 1:
                gap = [t for t in range(t_on, t_off) if not trace[t].cs]
                return fail(f"{what}: chip select dropped in cycle(s) {gap[:4]} and came back inside one transaction",
                            signature="cs-glitch")
            # --- clock numbering
            cnum = {}
            k = 0
            for t in range(T, Tn):
                if trace[t].cs and trace[t].clk_en:
                    k += 1
                cnum[t] = k
            clocks = [t for t in range(T, Tn) if trace[t].cs and trace[t].clk_en]
            if len(clocks) < 3:
                return fail(f"{what}: only {len(clocks)} bus clocks issued", signature="short-command")
            for j in range(3):
                o = trace[clocks[j]]
                if not o.dq_e or o.dq_o != exp_ca[j]:
                    return fail(f"{what}: command clock {j + 1} (cycle {clocks[j]}): dq.e={o.dq_e} dq.o=0x{o.dq_o:04x}, "
                                f"expected driven 0x{exp_ca[j]:04x}", signature=f"wrong-command-word-{j}")
            # --- write data / end of transaction
            end_cycle = None
            mem_write = x["write"] and not x["reg"]
            if x["write"]:
                accepted = [(t, ins[t]["wdata"], ins[t]["final"]) for t in range(T, Tn) if trace[t].write_ready]
                datac = [t for t in clocks[3:] if trace[t].dq_e]
                if x["reg"]:
                    want_n = 1
                else:
                    want_n = x["n"]
                    if datac and cnum[datac[0]] < MIN_WRITE_CLOCK:
                        return fail(f"{what}: first write word driven at bus clock {cnum[datac[0]]} (cycle {datac[0]}), "
                                    f"before the latency count elapsed (>= {MIN_WRITE_CLOCK})", signature="write-before-latency")
                if len(accepted) != want_n:
                    return fail(f"{what}: {len(accepted)} words accepted via write_ready, user marked word {want_n} "
                                f"as final", signature="write-word-count")
                if [trace[t].dq_o for t in datac] != [w for _, w, _ in accepted]:
                    return fail(f"{what}: words clocked out on DQ {[hex(trace[t].dq_o) for t in datac]} (cycles {datac}) "
                                f"differ from the accepted words {[hex(w) for _, w, _ in accepted]}",
                                signature="write-words-not-transferred")
                if mem_write:
                    for t in datac:
                        if not trace[t].rwds_e:
                            return fail(f"{what}: write word in cycle {t} without RWDS driven", signature="write-without-rwds")
                if not datac:
                    return fail(f"{what}: no write word was clocked out", signature="write-words-not-transferred")
                end_cycle = datac[-1]
            else:
                want = p["delivered"]
                got = [(t, trace[t].read_data) for t in range(T, Tn) if trace[t].read_ready]
                n = x["n"]
                if [w for _, w in got[:n]] != [w for _, w in want[:n]] or len(got) < n:
                    return fail(f"{what}: read words reported {[(t, hex(w)) for t, w in got]}, memory delivered "
                                f"{[(t, hex(w)) for t, w in want[:n + 1]]}", signature="read-words-mismatch")
                if len(got) > n:
                    return fail(f"{what}: {len(got)} words reported for a burst of {n}", signature="read-past-final")
                end_cycle = want[n - 1][0]
            if t_off < end_cycle:
                return fail(f"{what}: chip select released in cycle {t_off + 1}, before the last word was transferred "
                            f"(cycle {end_cycle})", signature="cs-released-early")
            if t_off > end_cycle + 8:
                return fail(f"{what}: chip select still asserted {t_off - end_cycle} cycles after the last word",
                            signature="cs-not-released")
            # --- drive rules
            wmin = 4 if x["reg"] else MIN_WRITE_CLOCK
            for t in range(T, Tn):
                o = trace[t]
                kk = cnum[t]
                if o.dq_e:
                    ok = o.cs and (kk <= 3 or (x["write"] and kk >= wmin and t <= end_cycle))
                    if not ok:
                        return fail(f"{what}: dq.e high in cycle {t} (bus clock {kk}, cs={o.cs}) outside the command and "
                                    f"write phases", signature="dq-driven-outside-phase" + ("-read" if not x["write"] else ""))
                    if ins[t]["mem_dq"]:
                        return fail(f"{what}: dq.e high in cycle {t} while the memory drives DQ", signature="dq-contention")
                if o.rwds_e:
                    ok = o.cs and mem_write and kk >= wmin and t <= end_cycle
                    if not ok:
                        return fail(f"{what}: rwds.e high in cycle {t} (bus clock {kk}, cs={o.cs}) outside a memory write "
                                    f"phase", signature="rwds-driven-outside-phase")
                    if ins[t]["mem_rwds"]:
                        return fail(f"{what}: rwds.e high in cycle {t} while the memory drives RWDS",
                                    signature="rwds-contention")
            labels.add(kind)
            if not x["reg"] and x["n"] >= 2:
                burst = True
                labels.add(kind + "-burst")
            if not x["write"]:
                labels.add("align-shifted" if x["align"] else "align-word")
                if x["extra"]:
                    labels.add("read-extra-delay")
                if any(x["rgaps"][:max(1, x["n"] - 1)]) and x["n"] >= 2:
                    labels.add("read-gaps")
            if x["startlen"] > 1:
                labels.add("long-start")
        if len(plan) > 1:
            labels.add("multi-txn")
        return Result(ok=True, nontrivial=burst, labels=tuple(sorted(labels)))


SUBS = [HyperSub()]
