"""C01 — USB2 tokens are reported iff well-formed and addressed to the device."""
from hypothesis import strategies as st

from lunaverif.core import Sub, Result, fail
from lunaverif.simkit import CycleHarness
from lunaverif.gen import long_lists, weighted
from lunaverif.bfm import utmi_rx, g1_rx as rx
from lunaverif.ref import usb2
from lunaverif.ref.crc import usb2_crc5

PROPERTY = "C01"
ASSUMPTIONS = [
    "UTMI receive soundness (DESIGN.md §3): rx_valid implies rx_active; rx_active rises >= 1 cycle before the first "
    "byte; >= 2 idle cycles between packets; no byte is presented in the cycle rx_active rises",
    "the device address input only changes while the bus is idle (it is a register written by SET_ADDRESS handling); "
    "the 'current address' of a token is the value held from the packet's first cycle to the cycle after its end",
    "an event is observed as the new_token / new_frame strobe; pid/address/endpoint/frame are compared in the strobe cycle",
]

TOKENISH = (usb2.PID_OUT, usb2.PID_IN, usb2.PID_SETUP, usb2.PID_PING, usb2.PID_SOF)


def _harness():
    from luna.gateware.interface.utmi import UTMIInterface
    from luna.gateware.usb.usb2.packet import USBTokenDetector
    utmi = UTMIInterface()
    dut = USBTokenDetector(utmi=utmi, filter_by_address=True)
    i = dut.interface
    return CycleHarness(
        dut,
        dict(rx_active=utmi.rx_active, rx_valid=utmi.rx_valid, rx_data=utmi.rx_data, address=dut.address,
             speed=dut.speed),
        dict(nt=i.new_token, pid=i.pid, addr=i.address, ep=i.endpoint, nf=i.new_frame, frame=i.frame),
        domain="usb")


def expected_event(data, dev):
    """Reference: what the statement says must be reported for this packet."""
    p = usb2.parse(data)
    if p["kind"] == "token" and p["addr"] == dev:
        return ("token", p["pid"], p["addr"], p["endp"]), "token-own"
    if p["kind"] == "sof":
        return ("sof", p["frame"]), "sof"
    if p["kind"] == "token":
        return None, "token-foreign"
    return None, p["kind"]


def judge(events, trace, spans, noise_label=True):
    """events: list of dict(bytes, dev).  Returns (Result-or-None, labels, n_expected, n_rejected_nearmiss)."""
    e = rx.ends(spans)
    labels = set()
    n_valid = n_near = 0
    cur_frame = 0            # reset value of the frame output; only a well-formed SOF may change it
    # nothing may be reported before the first packet ends
    for t in range(0, e[0] if e else len(trace)):
        if trace[t].nt or trace[t].nf:
            return fail(f"strobe before any packet ended (cycle {t})", signature="spurious-event"), labels, 0, 0
    for i, ev in enumerate(events):
        lo = e[i]
        hi = e[i + 1] if i + 1 < len(e) else len(trace)
        exp, lab = expected_event(ev["bytes"], ev["dev"])
        labels.add(lab)
        toks = [t for t in range(lo, hi) if trace[t].nt]
        sofs = [t for t in range(lo, hi) if trace[t].nf]

        def what():
            return (f"packet {i} [{rx.hexs(ev['bytes'])}] ({lab}, device address {ev['dev']}), "
                    f"window cycles {lo}..{hi - 1}")
        if exp is None or exp[0] == "token":
            for t in range(lo, hi):
                if trace[t].frame != cur_frame:
                    return fail(f"{what()}: frame number changed from {cur_frame} to {trace[t].frame} at cycle {t} "
                                f"without a well-formed SOF", signature="frame-changed-without-sof"), labels, 0, 0
        else:
            cur_frame = exp[1]
        if exp is None:
            if lab in ("token-foreign", "token-badcrc", "token-badlen", "badpid"):
                n_near += 1
            if toks or sofs:
                kind = "new_token" if toks else "new_frame"
                return fail(f"{what()}: unexpected {kind} strobe at cycle {(toks or sofs)[0]}",
                            signature=f"spurious-event-{lab}"), labels, 0, 0
        elif exp[0] == "token":
            n_valid += 1
            if sofs:
                return fail(f"{what()}: new_frame strobe for a non-SOF token", signature="token-reported-as-sof"), labels, 0, 0
            if len(toks) != 1:
                return fail(f"{what()}: expected exactly one new_token strobe, got {len(toks)} {toks}",
                            signature="token-missed" if not toks else "token-duplicated"), labels, 0, 0
            o = trace[toks[0]]
            got = ("token", o.pid, o.addr, o.ep)
            if got != exp:
                return fail(f"{what()}: reported (pid,addr,endp)={got[1:]} expected {exp[1:]} at cycle {toks[0]}",
                            signature="token-fields-wrong"), labels, 0, 0
        else:
            if toks:
                return fail(f"{what()}: new_token strobe for a SOF", signature="sof-reported-as-token"), labels, 0, 0
            if len(sofs) != 1:
                return fail(f"{what()}: expected exactly one new_frame strobe, got {len(sofs)} {sofs}",
                            signature="sof-missed" if not sofs else "sof-duplicated"), labels, 0, 0
            o = trace[sofs[0]]
            if o.frame != exp[1]:
                return fail(f"{what()}: frame={o.frame} expected {exp[1]} at cycle {sofs[0]}",
                            signature="sof-frame-wrong"), labels, 0, 0
            # the frame number stays until the next well-formed SOF
            for t in range(sofs[0], hi):
                if trace[t].frame != exp[1]:
                    return fail(f"{what()}: frame changed to {trace[t].frame} at cycle {t} without a SOF",
                                signature="sof-frame-unstable"), labels, 0, 0
    return None, labels, n_valid, n_near


def run_events(h, events, noise=0, tail=4):
    script, spans = utmi_rx.render(events, noise=noise)
    for ev, (s, _) in zip(events, spans):
        script[s]["address"] = ev["dev"]
        # the detector's operating-speed input (it only feeds the inter-packet timer): any value, per packet;
        # the statement's acceptance rule does not depend on it
        script[s]["speed"] = ev.get("speed", 0)
    trace = h.run_script(script, tail=tail)
    return trace, spans


# --------------------------------------------------------------------------------------- random histories
def _event_strategy():
    tok_own = st.builds(lambda dev, pid, ep: dict(dev=dev, bytes=rx.token_bytes(pid, dev, ep)),
                        rx.ADDR, rx.TOKEN_PID, rx.ENDP)
    tok_foreign = st.builds(lambda dev, x, pid, ep: dict(dev=dev, bytes=rx.token_bytes(pid, dev ^ x, ep)),
                            rx.ADDR, st.one_of(st.sampled_from([1, 2, 4, 8, 16, 32, 64]), st.integers(1, 127)),
                            rx.TOKEN_PID, rx.ENDP)
    sof = st.builds(lambda dev, f: dict(dev=dev, bytes=rx.sof_bytes(f)), rx.ADDR, rx.FRAME)
    # near misses built from a valid token addressed to the device (or a SOF)
    def near(mk, *extra):
        return st.builds(lambda dev, pid, ep, f, *xs: dict(
            dev=dev, bytes=mk(rx.token_bytes(pid, dev, ep) if pid != usb2.PID_SOF else rx.sof_bytes(f), *xs)),
            rx.ADDR, st.sampled_from(TOKENISH), rx.ENDP, rx.FRAME, *extra)
    bad_nibble = near(lambda b, m: [b[0] ^ (m << 4)] + b[1:], st.integers(1, 15))
    bad_crc = near(lambda b, pos: [b[0]] + rx.flip_bits(b[1:], pos),
                   st.lists(st.integers(0, 15), min_size=1, max_size=5, unique=True))
    truncated = near(lambda b, n: b[:n], st.sampled_from([1, 2]))
    overlong = near(lambda b, xs: b + xs, st.lists(rx.BYTE, min_size=1, max_size=5))
    other = st.builds(lambda dev, b: dict(dev=dev, bytes=b), rx.ADDR, st.one_of(
        rx.data_good(payload=rx.payloads(max_len=12, average=3)), rx.handshake_good(), rx.garbage(6),
        st.builds(lambda p, xs: [usb2.pid_byte(p)] + xs, st.sampled_from([0x0, 0x8, 0xC]),
                  st.lists(rx.BYTE, min_size=0, max_size=3)),
        st.just([])))                                         # aborted activation, no bytes
    rawword = st.builds(lambda dev, pid, w: dict(dev=dev, bytes=[usb2.pid_byte(pid), w & 0xFF, w >> 8]),
                        rx.ADDR, st.sampled_from(TOKENISH), st.integers(0, 0xFFFF))
    # several token-shaped fragments glued into ONE over-long packet (rx_active never falls): a head that is a
    # valid / bad-CRC / bad-nibble / truncated token, 0-2 filler bytes, and a well-formed own token or SOF as tail
    def _glue(head, fill, tail):
        return dict(dev=head["dev"], bytes=head["bytes"] + fill + tail)
    glued = st.one_of(bad_crc, bad_crc, bad_nibble, truncated, tok_own, tok_foreign, sof).flatmap(
        lambda head: st.builds(_glue, st.just(head), st.lists(rx.BYTE, min_size=0, max_size=2),
                               st.one_of(
                                   st.builds(lambda pid, ep: rx.token_bytes(pid, head["dev"], ep), rx.TOKEN_PID, rx.ENDP),
                                   st.builds(rx.sof_bytes, rx.FRAME))))
    classes = st.one_of(tok_own, tok_own, tok_own, tok_own, tok_own, tok_foreign, tok_foreign, sof, sof, bad_nibble, bad_crc, bad_crc,
                        truncated, overlong, other, rawword, glued, glued)
    return rx.with_timing(classes)


class TokenHistories(Sub):
    name = "histories"
    budget = {"quick": 8000, "thorough": 300000}
    rule = ("histories of 1..30 packets drawn by construction from: valid own-address token (4 PIDs), foreign-address "
            "token, SOF, wrong check nibble, 1-5 flipped bits in the 16-bit token word, truncated to 1/2 bytes, "
            "over-long, token fragments glued into one packet (bad/valid head + 0-2 filler + well-formed own token/SOF), "
            "data/handshake/special-PID/garbage/aborted packets, random 16-bit word; per-packet device "
            "address and operating-speed input (HIGH/FULL/LOW), byte gaps, lead/trail/idle timing; each packet's literal bytes are re-parsed by the reference "
            "(ref.usb2 + bit-serial CRC5) and the number and fields of new_token/new_frame strobes between consecutive "
            "packet ends must match; non-trivial = history has >=1 reported token AND >=1 rejected near-miss "
            "(foreign address / bad CRC5 / bad length / bad check nibble)")

    def setup(self):
        self.h = _harness()

    def strategy(self):
        return st.fixed_dictionaries(dict(
            evs=long_lists(_event_strategy(), min_size=1, max_size=30, average=14),
            noise=st.sampled_from([0, 0xFF, 0xA5, 0x2D]),
            speeds=st.lists(st.sampled_from([0, 1, 2]), min_size=1, max_size=4),      # USBSpeed HIGH / FULL / LOW
        ))

    def run(self, case):
        sp = case.get("speeds") or [0]
        evs = [dict(ev, speed=sp[i % len(sp)]) for i, ev in enumerate(case["evs"])]
        trace, spans = run_events(self.h, evs, noise=case["noise"])
        res, labels, nv, nn = judge(evs, trace, spans)
        if res is not None:
            return res
        if any(ev["trail"] == 0 for ev in evs):
            labels.add("trail0")
        if any(x != 0 for x in sp):
            labels.add("speed-input-not-high")
        if any(max(ev["gaps"]) > 0 and len(ev["bytes"]) > 1 for ev in evs):
            labels.add("byte-gaps")
        return Result(ok=True, nontrivial=nv >= 1 and nn >= 1, labels=tuple(sorted(labels)))


# --------------------------------------------------------------------------------------- exhaustive pass
class TokenExhaustive(Sub):
    name = "exhaustive"
    budget = {"quick": 0, "thorough": 0}
    exhaustive = True
    CHUNK = 128
    FULL_PIDS = (1, 4)            # indices into TOKENISH: IN and SOF get every 16-bit word
    TIERS = ("quick", "thorough")
    rule = ("enumeration: every 3-byte packet with PID IN or SOF x every 16-bit word (2 x 65536 packets, i.e. all 2^11 "
            "payloads with every possible CRC5 field) and every CRC-valid word for OUT/SETUP/PING, device address equal to "
            "the word's address field; plus every CRC-valid token word x 4 PIDs with the device address differing in one "
            "bit (bit index rotates); expected event from the bit-serial CRC5 reference; a case (128 packets) is "
            "non-trivial when it contains both accepted and rejected packets")

    def setup(self):
        self.h = _harness()

    def enumerate(self, tier):
        if tier not in self.TIERS:
            return None

        def gen():
            for pi in range(5):
                if pi in self.FULL_PIDS:
                    for base in range(0, 0x10000, self.CHUNK):
                        yield dict(mode="eq", pid=pi, base=base)
                elif self.FULL_PIDS == (1, 4):
                    for base in range(0, 0x800, self.CHUNK):
                        yield dict(mode="valid", pid=pi, base=base)
            if self.FULL_PIDS == (1, 4):
                for pi in range(4):
                    for base in range(0, 0x800, self.CHUNK):
                        yield dict(mode="neq", pid=pi, base=base)
        return gen()

    def strategy(self):
        return st.just(dict(mode="eq", pid=0, base=0))

    def run(self, case):
        pid = TOKENISH[case["pid"]]
        evs = []
        for k in range(self.CHUNK):
            if case["mode"] == "eq":
                w = case["base"] + k
                dev = w & 0x7F
            else:
                v = case["base"] + k
                w = v | (usb2_crc5(v) << 11)
                dev = (v & 0x7F) ^ ((1 << (v % 7)) if case["mode"] == "neq" else 0)
            evs.append(dict(bytes=[usb2.pid_byte(pid), w & 0xFF, w >> 8], dev=dev, lead=1, gaps=[0],
                            trail=k & 1, idle=2, speed=(k // 2) % 3))
        trace, spans = run_events(self.h, evs)
        res, labels, nv, nn = judge(evs, trace, spans)
        if res is not None:
            return res
        n_ok = sum(1 for ev in evs if expected_event(ev["bytes"], ev["dev"])[0] is not None)
        return Result(ok=True, nontrivial=0 < n_ok < len(evs), labels=tuple(sorted(labels)) + (case["mode"],))


class TokenExhaustiveRest(TokenExhaustive):
    name = "exhaustive-rest"
    FULL_PIDS = (0, 2, 3)         # OUT, SETUP, PING: every 16-bit word as well (thorough tier only)
    TIERS = ("thorough",)
    rule = ("thorough tier only: every 3-byte packet with PID OUT, SETUP or PING x every 16-bit word (3 x 65536 packets), "
            "device address equal to the word's address field; same oracle as 'exhaustive'")


SUBS = [TokenHistories(), TokenExhaustive(), TokenExhaustiveRest()]
