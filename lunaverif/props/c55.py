"""C55 — stretch_strobe_signal holds its output for exactly the requested number of cycles."""
from hypothesis import strategies as st

from lunaverif.core import Sub, Result, fail
from lunaverif.gen import long_lists, weighted
from lunaverif.simkit import CycleHarness

PROPERTY = "C55"
ASSUMPTIONS = [
    "the strobe input is synchronous to the stretcher's clock domain (any 0/1 waveform, including multi-cycle levels)",
    "allow_delay=True *permits* a one-cycle delay: the output must equal the window shifted by 0 or by 1 cycle, the same "
    "shift for the whole run; allow_delay=False requires shift 0",
    "before the first simulated cycle the strobe has been low for at least to_cycles cycles (reset state)",
]

# (to_cycles, allow_delay, variant)  variant: 0 = internal output in sync, 1 = caller-provided output, 'usb' domain
CONFIGS = [(n, d, 0) for n in range(1, 41) for d in (False, True)] + \
          [(n, d, 1) for n in (1, 2, 5, 12) for d in (False, True)]


def build(n, delay, variant):
    from amaranth import Elaboratable, Module, Signal
    from luna.gateware.utils.cdc import stretch_strobe_signal

    class Wrapper(Elaboratable):
        def __init__(self):
            self.strobe = Signal()
            self.out = Signal()

        def elaborate(self, platform):
            m = Module()
            if variant == 0:
                hb = Signal()
                m.d.sync += hb.eq(~hb)          # keeps the sync domain alive for to_cycles == 1
                o = stretch_strobe_signal(m, self.strobe, to_cycles=n, allow_delay=delay)
                m.d.comb += self.out.eq(o)
            else:
                hb = Signal()
                m.d.usb += hb.eq(~hb)
                # the caller-provided output is what is observed (the way architecture/car.py uses the function);
                # the return value is deliberately ignored here -- variant 0 covers it
                stretch_strobe_signal(m, self.strobe, to_cycles=n, output=self.out, domain=m.d.usb,
                                      allow_delay=delay)
            return m

    w = Wrapper()
    return CycleHarness(w, ins=dict(strobe=w.strobe), outs=dict(out=w.out), domain="sync" if variant == 0 else "usb")


class StretchSub(Sub):
    name = "stretch"
    budget = {"quick": 10000, "thorough": 100000}
    rule = ("stretch_strobe_signal for to_cycles 1..40, allow_delay on/off (plus caller-provided output in another "
            "domain); strobe waveform = (high run, low run) pairs with low runs around to_cycles; oracle: out[t] == OR of "
            "strobe over the last to_cycles cycles (window shifted by one when a delay is allowed and taken), every "
            "cycle; non-trivial = a re-trigger inside an active window AND a gap longer than to_cycles AND a gap of "
            "to_cycles-2..to_cycles+1 cycles (around the falling edge)")

    def setup(self):
        self.h = {}

    def harness(self, ci):
        if ci not in self.h:
            self.h[ci] = build(*CONFIGS[ci])
        return self.h[ci]

    def strategy(self):
        def for_cfg(ci):
            n = CONFIGS[ci][0]
            near = sorted({max(0, n + d) for d in (-2, -1, 0, 1)})
            zeros = st.one_of(weighted([(0, 1), (1, 3), (2, 2), (3, 1)]), st.sampled_from(near), st.sampled_from(near),
                              st.integers(0, 2 * n + 3))
            ones = st.one_of(st.just(1), st.just(1), weighted([(1, 3), (2, 2), (3, 1)]), st.integers(1, n + 2))
            run = st.tuples(ones, zeros).map(list)
            return st.fixed_dictionaries(dict(cfg=st.just(ci), lead=st.integers(0, 3),
                                              runs=long_lists(run, min_size=1, max_size=30, average=9)))
        pool = [ci for ci, c in enumerate(CONFIGS) for _ in range(4 if c[0] <= 8 else 1)]
        return st.sampled_from(pool).flatmap(for_cfg)

    def run(self, case):
        ci = case["cfg"]
        n, delay, variant = CONFIGS[ci]
        wave = []
        wave += [0] * case["lead"]
        for ones, zeros in case["runs"]:
            wave += [1] * ones + [0] * zeros
        wave += [0] * (n + 3)
        trace = self.harness(ci).run_script([dict(strobe=s) for s in wave])
        out = [o.out for o in trace]

        def model(shift):
            res = []
            for t in range(len(wave)):
                lo, hi = t - shift - (n - 1), t - shift
                res.append(int(any(wave[j] for j in range(max(lo, 0), hi + 1))))
            return res

        shifts = (0, 1) if delay else (0,)
        models = {s: model(s) for s in shifts}
        if not any(m == out for m in models.values()):
            m0 = models[shifts[-1] if delay and n > 1 else 0]
            t = next(i for i in range(len(out)) if m0[i] != out[i])
            kind = "too-long" if out[t] else "too-short"
            return fail(f"to_cycles={n} allow_delay={delay} variant={variant}: cycle {t}: output {out[t]} expected "
                        f"{m0[t]} (strobe history {wave[max(0, t - n - 1):t + 1]}); no single shift in {shifts} explains "
                        f"the run", signature=f"stretch-{kind}" + ("-delayed" if delay else ""))
        # classification
        ones = [t for t, s in enumerate(wave) if s]
        gaps = [b - a - 1 for a, b in zip(ones, ones[1:]) if b - a > 1]
        retrig = any(b - a <= n - 1 and b - a >= 1 for a, b in zip(ones, ones[1:])) and n > 1
        longgap = any(g > n for g in gaps)
        edge = any(n - 2 <= g <= n + 1 for g in gaps)
        labels = {f"delay={int(delay)}", "n=1" if n == 1 else ("n<=8" if n <= 8 else "n>8")}
        if retrig:
            labels.add("retrigger")
        if longgap:
            labels.add("gap>n")
        if edge:
            labels.add("gap~n")
        if variant:
            labels.add("provided-output-usb-domain")
        return Result(ok=True, nontrivial=retrig and longgap and edge, labels=tuple(sorted(labels)))


SUBS = [StretchSub()]
