"""C17 — status (signal) IN endpoints report one latched value consistently, retry identically, toggle on ACK."""

from hypothesis import strategies as st

from lunaverif.core import Sub, Result, fail
from lunaverif.simkit import CycleHarness
from lunaverif.gen import long_lists, weighted
from lunaverif.bfm.g8_ephost import EpHost, Segments, interface_ports
from lunaverif.bfm import g8_gen as G

PROPERTY = "C17"
ASSUMPTIONS = [
    "the endpoint is driven at its EndpointInterface with the strobe order/timing device.py produces "
    "(new_token one cycle after the token, ready_for_response 1/2/10 cycles later, ACK strobe after the packet)",
    "the host never sends a token while the device is transmitting and sends ACK only after a data packet",
    "handshakes the host addresses to *other devices* on the bus (visible to the handshake detector) are not generated",
    "\"sampled when the request arrived\" = any one value the signal held between the end of the IN token and the "
    "first cycle tx.valid is seen (the statement does not fix the cycle inside that window)",
    "signal_domain='usb' for 20 configurations; 6 more use signal_domain='sync'/'fast'. USBSignalInEndpoint never "
    "references that domain's clock (its FFSynchronizer runs entirely in 'usb' and, on the unmodified tree, its output "
    "is unused: the raw signal is latched directly), so no second clock exists in the simulation; the signal is "
    "changed at usb cycle boundaries, i.e. it comes from a domain whose clock has the usb period, which keeps 'the "
    "value sampled when the request arrived' well defined",
    "for those configurations nothing is assumed about synchroniser latency: the value may be any one the signal held "
    "from SYNC_ALLOWANCE (4) cycles before the end of the IN token up to the first tx.valid cycle (the unmodified "
    "tree needs 0; a 2..3-stage synchroniser would need 2..3)",
]

SYNC_ALLOWANCE = 4

# (width, endianness, endpoint number[, signal_domain]) — 26 small elaborations per worker at most
CONFIGS = []
for i, w in enumerate((1, 7, 8, 9, 16, 24, 31, 32, 33, 64)):
    CONFIGS.append((w, "little", 1 + (i * 3) % 15, "usb"))
    CONFIGS.append((w, "big", 1 + (i * 5 + 2) % 15, "usb"))
CONFIGS += [(1, "little", 2, "sync"), (8, "big", 5, "sync"), (16, "little", 3, "sync"), (16, "big", 9, "fast"),
            (33, "little", 12, "fast"), (64, "big", 1, "sync")]


class StatusSub(Sub):
    name = "signal-in"
    budget = {"quick": 4000, "thorough": 50000}
    shrink_budget = 300
    rule = ("USBSignalInEndpoint (10 widths 1..64 x both endiannesses with signal_domain='usb', 6 width/endianness "
            "combinations with another signal_domain) driven at its EndpointInterface by the g8 "
            "endpoint-level host: IN polls with ACK / missing ACK, response delay 1/2/10 cycles, PHY tx_ready stalls, "
            "background traffic (other endpoints, same number OUT, SOF, PING, foreign device), signal changing at "
            "generated times. Oracle: every poll answered by exactly one packet of ceil(width/8) bytes that serialises "
            "ONE value the signal held between token end and first tx.valid; a retry is byte- and PID-identical; data "
            "PID follows a toggle that flips only on ACK; status_read_complete strobes exactly once per ACK; nothing "
            "is sent for other tokens. Non-trivial = the signal changed during a transmission AND between an "
            "un-ACKed attempt and its retry.")

    def setup(self):
        self.h = {}

    def harness(self, cfg):
        if cfg not in self.h:
            from luna.gateware.usb.usb2.endpoints.status import USBSignalInEndpoint
            w, endian, ep, sdom = CONFIGS[cfg]
            dut = USBSignalInEndpoint(width=w, endpoint_number=ep, endianness=endian, signal_domain=sdom)
            ins, outs = interface_ports(dut.interface)
            ins["signal"] = dut.signal
            outs["src"] = dut.status_read_complete
            self.h[cfg] = CycleHarness(dut, ins, outs, domain="usb")
        return self.h[cfg]

    def strategy(self):
        def case(cfg):
            w, endian, ep, sdom = CONFIGS[cfg]
            ev = st.one_of(G.in_mine(ep), G.in_mine(ep), G.in_mine(ep), G.background(ep, "in"))
            return st.fixed_dictionaries(dict(
                cfg=st.just(cfg), d=G.delay, phy=G.phy, pid_wait=G.pid_wait,
                sig=G.segments(st.integers(0, (1 << w) - 1), max_seg=16, max_dwell=25),
                ev=long_lists(ev, min_size=1, max_size=40, average=12)))
        return st.integers(0, len(CONFIGS) - 1).flatmap(case)

    def run(self, case):
        cfg = case["cfg"]
        w, endian, ep, sdom = CONFIGS[cfg]
        nbytes = (w + 7) // 8
        back = 0 if sdom == "usb" else SYNC_ALLOWANCE
        sig = Segments(case["sig"])
        host = EpHost(case["ev"], d=case["d"], phy=case["phy"], pid_wait=case["pid_wait"],
                      side=lambda t, prev, h: {"signal": sig.at(t)})
        trace = self.harness(cfg).run_driver(host, 200000)
        if host.done_at is None:
            raise RuntimeError("host script did not finish")

        def ser(v):
            return list(v.to_bytes(nbytes, endian))

        if host.hs_out:
            c, k = host.hs_out[0]
            return fail(f"endpoint requested a {k} handshake in cycle {c}", signature="unexpected-handshake")
        src_cycles = [t for t, o in enumerate(trace) if o.src]
        log = host.log
        pk = host.tx.packets
        tog = 0
        held = None            # (pid, data) of the un-ACKed attempt
        acks = []
        changed_in_tx = changed_before_retry = False
        labels = set()
        for j, rec in enumerate(log):
            np1 = log[j + 1]["np0"] if j + 1 < len(log) else len(pk)
            mine = pk[rec["np0"]:np1]
            is_poll = rec["k"] == "in" and rec["ep"] == ep
            if not is_poll:
                if mine:
                    return fail(f"packet started in cycle {mine[0]['start']} during a {rec['k']} event (ep {rec['ep']}) "
                                f"that does not poll endpoint {ep}", signature="unsolicited-packet")
                continue
            if len(mine) != 1:
                return fail(f"IN poll (token end cycle {rec['T']}) answered by {len(mine)} packets",
                            signature="no-response" if not mine else "multiple-packets")
            p = mine[0]
            if p["zlp"] or p["aborted"] or p.get("late_first") or len(p["data"]) != nbytes:
                return fail(f"malformed response to poll at {rec['T']}: {p}", signature="malformed-packet")
            if p["pid"] != tog:
                return fail(f"poll at {rec['T']}: data PID {p['pid']} but the toggle is {tog} "
                            f"({'retry' if held else 'fresh'})", signature="wrong-toggle")
            if held is not None:
                labels.add("retry")
                if p["data"] != held[1]:
                    return fail(f"retry at {rec['T']} sent {p['data']} but the un-ACKed attempt sent {held[1]}",
                                signature="retry-differs")
                if len({sig.at(t) for t in range(held[2], p["start"] + 1)}) > 1:
                    changed_before_retry = True
            else:
                w0 = max(0, rec["T"] + 1 - back)
                window = {sig.at(t) for t in range(w0, p["start"] + 1)}
                if p["data"] not in [ser(v) for v in window]:
                    return fail(f"poll at {rec['T']} (d={case['d']}) sent {p['data']}; values held by the signal in "
                                f"cycles {w0}..{p['start']}: {sorted(window)} ({endian}, {nbytes} bytes, "
                                f"signal_domain={sdom!r})", signature="value-not-from-request-window")
            if len({sig.at(t) for t in range(p["start"], p["end"] + 1)}) > 1:
                changed_in_tx = True
            if "t_ack" in rec:
                acks.append(rec["t_ack"])
                tog ^= 1
                held = None
                labels.add("acked")
            else:
                held = held or (p["pid"], p["data"], rec["T"] + 1)
                labels.add("no-ack")
        if src_cycles != acks:
            return fail(f"status_read_complete strobed in cycles {src_cycles[:8]} but ACKs of this endpoint's packets "
                        f"arrived in cycles {acks[:8]}", signature="read-complete-mismatch")
        if changed_in_tx:
            labels.add("signal-changed-during-tx")
        if changed_before_retry:
            labels.add("signal-changed-before-retry")
        labels.add(f"d={case['d']}")
        labels.add(f"w={w}")
        labels.add(f"signal_domain={'usb' if sdom == 'usb' else 'other'}")
        return Result(ok=True, nontrivial=changed_in_tx and changed_before_retry, labels=tuple(sorted(labels)))


SUBS = [StatusSub()]
