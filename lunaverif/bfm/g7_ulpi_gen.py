"""Hypothesis strategies for ULPI-PHY-side and link-side event lists (C22, C23, C24).  JSON-able output only."""

from hypothesis import strategies as st

from lunaverif.gen import long_lists, weighted, bits
from lunaverif.bfm.g7_ulpi_phy import CTL_NAMES, CTL_WIDTH

GAP_SMALL = weighted([(0, 4), (1, 5), (2, 4), (3, 3), (4, 2), (5, 2), (6, 1), (8, 1), (12, 1), (20, 1), (45, 1)])
GAP_RX = weighted([(1, 5), (2, 4), (3, 3), (4, 2), (6, 2), (9, 1), (15, 1), (30, 1)])

RESET_CTL = dict(xcvr_select=1, term_select=0, op_mode=0, suspend=0, id_pullup=0, dp_pulldown=1, dm_pulldown=1,
                 chrg_vbus=0, dischrg_vbus=0, use_external_vbus_indicator=0)

# byte gaps inside a receive: back to back (HS), short throttles, one FS byte time (40 cycles at 60 MHz)
BYTE_GAP = weighted([(0, 10), (1, 4), (2, 2), (3, 1), (7, 1), (39, 1)])


def status_seg():
    return st.fixed_dictionaries(dict(k=st.just("st"), v=bits(8), n=weighted([(1, 5), (2, 2), (3, 1)])))


def packet_seg(max_bytes=24, average=6):
    return st.fixed_dictionaries(dict(
        k=st.just("pk"), v=bits(8), n=weighted([(1, 6), (2, 2), (3, 1)]),
        b=long_lists(st.tuples(bits(8), BYTE_GAP, bits(8)).map(list), min_size=0, max_size=max_bytes, average=average),
        end=weighted([(0, 2), (1, 1)]), ev=bits(8), en=weighted([(1, 3), (2, 1)])))


def burst(trig=st.just(0), chain=st.just(0), p_packet=3):
    seg = st.one_of(*([packet_seg()] * p_packet + [status_seg()]))
    return st.fixed_dictionaries(dict(
        k=st.just("rx"), gap=GAP_RX, nxt=weighted([(1, 2), (0, 1)]), ta=bits(8), trig=trig, chain=chain,
        segs=st.lists(seg, min_size=1, max_size=4)))


def ctl_values():
    return st.fixed_dictionaries({n: bits(CTL_WIDTH.get(n, 1)) for n in CTL_NAMES})


def ctl_change(sync=st.just(0)):
    """Change 1..3 control inputs (values may equal the current ones: change-and-revert arises naturally
    from few-valued signals)."""
    one = st.sampled_from(CTL_NAMES).flatmap(lambda n: st.tuples(st.just(n), bits(CTL_WIDTH.get(n, 1))))
    return st.fixed_dictionaries(dict(
        k=st.just("ctl"), gap=GAP_SMALL, sync=sync,
        set=st.lists(one, min_size=1, max_size=3).map(dict)))


def tx_request(sync=st.just(0), max_len=40, average=6):
    return st.fixed_dictionaries(dict(
        k=st.just("tx"), gap=GAP_SMALL, sync=sync,
        bytes=long_lists(bits(8), min_size=1, max_size=max_len, average=average)))


DELAYS = st.lists(weighted([(0, 8), (1, 4), (2, 2), (3, 1), (5, 1), (9, 1)]), min_size=1, max_size=12)
