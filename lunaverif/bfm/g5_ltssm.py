"""Long-timescale harness for LTSSMController (g5, C41): event-list stimulus + change-driven sampler.

    h = LtssmHarness(loosen=True)                       # elaborates once; Simulator.reset() per run
    changes, total = h.run([({"phy_ready": 1}, 3), ({"link_partner_detected": 1}, 1), ...])

* stimulus: list of (input changes, cycles): the changes are applied, then the clock ticks that many cycles
  (`tick().repeat(n)`), so the testbench costs nothing while inputs are constant;
* observation: an independent background process sleeps until any observed output differs from its value in the
  previous cycle (a one-register comparator in the wrapper, used as the `until()` condition) and records
  (cycle, outputs) — outputs are sampled at the clock edge ending each cycle, cycle 0 being the first after reset.

Cycle numbering: input changes listed in event k take effect in cycle sum(n_0..n_{k-1}); an output that depends on
the FSM state reacts one cycle later.
"""

import sys

from amaranth import Elaboratable, Module, Signal, Cat
from amaranth.sim import Simulator

SS_CLOCK = 50e3           # 12 ms = 600, 2 ms = 100, 360 ms = 18000 cycles

INPUTS = ["in_usb_reset", "trigger_link_recovery", "phy_ready", "disable_scrambling", "link_partner_detected",
          "no_link_partner_detected", "lfps_polling_detected", "lfps_cycles_sent", "tseq_detected", "ts1_detected",
          "inverted_ts1_detected", "ts2_detected", "hot_reset_requested", "loopback_requested",
          "no_scrambling_requested", "ts_burst_complete", "idle_handshake_complete", "power_on_reset"]

OUTPUTS = ["link_ready", "entering_u0", "tx_electrical_idle", "engage_terminations", "invert_rx_polarity",
           "train_equalizer", "perform_rx_detection", "send_lfps_polling", "send_tseq_burst", "send_ts1_burst",
           "send_ts2_burst", "request_hot_reset", "request_no_scrambling", "enable_scrambling",
           "perform_idle_handshake", "act_as_loopback", "emit_compliance_pattern"]


def _quiet_unraisable(unraisable, _prev=sys.unraisablehook):
    # Simulator.reset() drops suspended testbench coroutines; their finalisers complain harmlessly.
    if isinstance(unraisable.exc_value, RuntimeError) and "asynchronous generator" in str(unraisable.exc_value):
        return
    _prev(unraisable)


sys.unraisablehook = _quiet_unraisable


class _Wrap(Elaboratable):
    def __init__(self, dut, outs):
        self.dut = dut
        self.outs = outs
        self.cycle = Signal(32)
        self.packed = Signal(len(outs))
        self.changed = Signal()

    def elaborate(self, platform):
        m = Module()
        m.submodules.dut = self.dut
        prev = Signal(len(self.outs))
        first = Signal(init=1)
        m.d.comb += self.packed.eq(Cat(*self.outs))
        m.d.ss += [self.cycle.eq(self.cycle + 1), prev.eq(self.packed), first.eq(0)]
        m.d.comb += self.changed.eq((self.packed != prev) | first)
        return m


class LtssmHarness:
    def __init__(self, loosen):
        from luna.gateware.usb.usb3.link.ltssm import LTSSMController
        self.dut = LTSSMController(ss_clock_frequency=SS_CLOCK, loosen_requirements=loosen)
        self.ins = {n: getattr(self.dut, n) for n in INPUTS}
        self.w = _Wrap(self.dut, [getattr(self.dut, n) for n in OUTPUTS])
        self.sim = Simulator(self.w)
        self.sim.add_clock(1e-6, domain="ss")
        self._job = None
        self._first = True
        self.sim.add_testbench(self._driver)
        self.sim.add_testbench(self._sampler, background=True)

    async def _driver(self, ctx):
        job = self._job
        if job is None:
            return
        ins = self.ins
        for sets, n in job["events"]:
            for name, v in sets.items():
                ctx.set(ins[name], v)
            if n:
                await ctx.tick("ss").repeat(n)

    async def _sampler(self, ctx):
        job = self._job
        if job is None:
            return
        log = job["log"]
        w = self.w
        while True:
            cyc, packed = await ctx.tick("ss").sample(w.cycle, w.packed).until(w.changed)
            log.append((int(cyc), int(packed)))

    def run(self, events):
        """-> (list of (cycle, {output: value}) at every change incl. cycle 0, total cycles simulated)"""
        self._job = dict(events=events, log=[])
        if not self._first:
            self.sim.reset()
        self._first = False
        self.sim.run()
        total = sum(n for _, n in events)
        out = []
        for cyc, packed in self._job["log"]:
            if cyc < total:
                out.append((cyc, {n: (packed >> i) & 1 for i, n in enumerate(OUTPUTS)}))
        return out, total
