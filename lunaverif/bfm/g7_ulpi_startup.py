"""UTMITranslator built the way the real platforms build it -- ULPI record WITH `clk` and `rst`,
handle_clocking=True -- plus a harness/driver pair that can afford the 60000-cycle start-up wait (C22 `startup` sub).

With a `rst` member UTMITranslator drives ``rst.o = ResetSignal("usb")`` and holds off *its own* use of the bus
(transmit commands, register writes) for _CYCLES_1_MILLISECONDS cycles counted from the release of that reset.
The counter lives in the `usb` domain, i.e. it is itself held at 0 while the PHY's reset line is asserted; in the
simulation the domain reset is never asserted, so the PHY's reset line is low in every simulated cycle and cycle 0
is the first cycle after reset release.  The PHY (ULPI 1.1 3.12: DIR held high while the PLL starts, then released
and followed by an RxCmd; nothing ties the PHY to the link's 1 ms) may therefore talk in any simulated cycle.

The harness is CycleHarness' closed-loop mode re-done with a multi-shot tick trigger (outputs still sampled at
every clock edge, nothing is skipped); the driver has a fast path for cycles in which nothing happens, which is what
makes ~60k-cycle cases cost about a second instead of three.
"""

from collections import namedtuple

from lunaverif.bfm import g7_ulpi_phy as P

_NOTHING = {}


class DenseHarness:
    """Same cycle model and driver contract as simkit.CycleHarness.run_driver."""

    def __init__(self, dut, ins, outs, domain="usb", period=1e-6):
        from amaranth.sim import Simulator
        self.in_sigs = dict(ins)
        self.out_names = list(outs)
        self.out_sigs = [outs[n] for n in self.out_names]
        self.Out = namedtuple("Out", self.out_names)
        self.domain = domain
        # all outputs packed into ONE combinational signal next to the DUT: sampling one signal per clock edge
        # instead of a dozen expressions halves the cost of a cycle
        from amaranth import Elaboratable, Module, Signal, Cat

        class _Packed(Elaboratable):
            def __init__(s, dut, sigs):
                s.dut, s.sigs = dut, sigs
                s.packed = Signal(sum(len(x) for x in sigs))

            def elaborate(s, platform):
                m = Module()
                m.submodules.dut = s.dut
                m.d.comb += s.packed.eq(Cat(*s.sigs))
                return m

        self.top = _Packed(dut, self.out_sigs)
        self.fields = []
        lo = 0
        for x in self.out_sigs:
            self.fields.append((lo, (1 << len(x)) - 1))
            lo += len(x)
        self.sim = Simulator(self.top)
        self.sim.add_clock(period, domain=domain)
        self._job = None
        self._first = True
        self.sim.add_testbench(self._tb)

    async def _tb(self, ctx):
        job = self._job
        if job is None:
            return
        driver, max_cycles, trace = job["driver"], job["max_cycles"], job["trace"]
        sigs, Out, no = self.in_sigs, self.Out, len(self.out_sigs)
        cur = {}

        def apply(upd):
            for n, v in upd.items():
                if cur.get(n) != v:
                    ctx.set(sigs[n], v)
                    cur[n] = v

        upd = driver.step(0, None)
        if upd is None or max_cycles <= 0:
            return
        apply(upd)
        fields = self.fields
        tick = ctx.tick(self.domain).sample(self.top.packed).__aiter__()
        try:
            t = 0
            last_vals, prev = None, None
            while True:
                vals = (await tick.__anext__())[-1]
                if vals != last_vals:
                    last_vals = vals
                    v = int(vals)
                    prev = Out(*[(v >> lo) & mask for lo, mask in fields])
                trace.append(prev)
                t += 1
                if t >= max_cycles:
                    break
                upd = driver.step(t, prev)
                if upd is None:
                    break
                if upd:
                    apply(upd)
        finally:
            await tick.aclose()

    def run_driver(self, driver, max_cycles):
        job = dict(driver=driver, max_cycles=max_cycles, trace=[])
        self._job = job
        if not self._first:
            self.sim.reset()
        self._first = False
        self.sim.run()
        return job["trace"]


def make_platform_translator_harness():
    """UTMITranslator(ulpi=<record with clk.o and rst.o>, handle_clocking=True), the default construction: both pins
    are link outputs as in ulpi.py's ULPIInterface (clk.o := ClockSignal("usb"), rst.o := ResetSignal("usb"))."""
    from amaranth.hdl.rec import Record
    from luna.gateware.interface.ulpi import UTMITranslator
    rec = Record([("dir", [("i", 1)]), ("nxt", [("i", 1)]), ("data", [("i", 8), ("o", 8), ("oe", 1)]),
                  ("stp", [("o", 1)]), ("clk", [("o", 1)]), ("rst", [("o", 1)])])
    dut = UTMITranslator(ulpi=rec, handle_clocking=True)
    ins = dict(dir=rec.dir.i, nxt=rec.nxt.i, di=rec.data.i, txd=dut.tx_data, txv=dut.tx_valid)
    for n in P.CTL_NAMES:
        ins[n] = getattr(dut, n)
    outs = dict(do=rec.data.o, stp=rec.stp.o, rst=rec.rst.o, busy=dut.busy,
                rxd=dut.rx_data, rxv=dut.rx_valid, rxa=dut.rx_active,
                line_state=dut.line_state, vbus_valid=dut.vbus_valid, session_valid=dut.session_valid,
                session_end=dut.session_end)
    return DenseHarness(dut, ins, outs, domain="usb"), int(UTMITranslator._CYCLES_1_MILLISECONDS)


class StartupDriver:
    """PHY model + constant control inputs; receive-side events only.  Event i is armed at the first cycle that is
    both >= ev["at"] (absolute) and >= gap cycles after event i-1 fired.  Stops ``quiet`` cycles after the last
    event when the PHY is idle and the link drives nothing -- but never before ``run_to``."""

    def __init__(self, init_ctl, events, delays, quiet, cap, run_to=0):
        self.phy = P.UlpiPhy(delays)
        self.init = dict(init_ctl)
        self.events = events
        self.ei = 0
        self.fired_at = 0
        self.quiet = quiet
        self.cap = cap
        self.run_to = run_to
        self.quiet_count = 0
        self.fire_times = []
        self.last = (0, 0, 0)
        self.ended = None

    def step(self, t, prev):
        phy = self.phy
        link = None if prev is None else (prev.do, prev.stp)
        if self.ei < len(self.events):
            ev = self.events[self.ei]
            if t >= ev["at"] and t >= self.fired_at + ev["gap"] and not phy.burst_pending:
                phy.arm_burst(P.build_burst(ev))
                self.ei += 1
                self.fired_at = t
                self.fire_times.append(t)
        d, n, x = phy.step(t, link)
        if t == 0:
            upd = dict(self.init)
            upd.update(txv=0, txd=0, dir=d, nxt=n, di=x)
        elif (d, n, x) != self.last:
            upd = dict(dir=d, nxt=n, di=x)
        else:
            upd = _NOTHING
        self.last = (d, n, x)
        if self.ei >= len(self.events) and phy.idle() and (link is None or link[0] == 0) and t >= self.run_to:
            self.quiet_count += 1
            if self.quiet_count > self.quiet:
                self.ended = "quiet"
                return None
        else:
            self.quiet_count = 0
        if t >= self.cap:
            self.ended = "cap"
            return None
        return upd
