"""Family-B rig "skip": the "full" device of g9_usb2host whose StandardRequestHandler is built with a non-empty
`skiplist` (LUNA's documented way of handing individual standard requests to an application handler).

  skiplist entry 1   standard GET_DESCRIPTOR of descriptor type 0x22 (HID report), any index / recipient / length:
                     claimed by ReportDescriptorHandler below (application code of this rig, written here, not LUNA's):
                     index 0 is served (REPORT bytes, cut to wLength, DATA1, status stage ACKed), every other index is
                     STALLed at its data stage / status stage -- i.e. exactly what the reference model derives from
                     a descriptor table that contains (0x22, 0) only.
  skiplist entry 2   every standard-type request with bRequest 11 (SET_INTERFACE; the standard handler does not
                     implement it anyway): skipped by the standard handler and claimed by nobody, so it reaches
                     the multiplexer's fallback -- it must be STALLed like any other unimplemented request.

Everything else (endpoints, descriptors, ports, host BFM, reference model) is the "full" rig.
"""
from lunaverif.bfm import g9_usb2host as H
from lunaverif.ref import g9_device_model as M
from lunaverif.simkit import CycleHarness

REPORT_TYPE = 0x22
REPORT = bytes([0x06, 0x00, 0xFF, 0x09, 0x01, 0xA1, 0x01, 0x95, 0x08, 0xC0])
SKIPPED_UNCLAIMED_REQUEST = 11


def is_report_descriptor_request(setup):
    from usb_protocol.types import USBRequestType, USBStandardRequests
    return ((setup.type == USBRequestType.STANDARD) & (setup.request == USBStandardRequests.GET_DESCRIPTOR)
            & (setup.value[8:16] == REPORT_TYPE))


def is_set_interface_request(setup):
    from usb_protocol.types import USBRequestType
    return (setup.type == USBRequestType.STANDARD) & (setup.request == SKIPPED_UNCLAIMED_REQUEST)


def skipped(req):
    """Python twin of the skiplist for classification: None | "claimed" | "unclaimed"."""
    bm, breq, wvalue, windex, wlength = req
    if (bm >> 5) & 3:
        return None
    if breq == 6 and (wvalue >> 8) == REPORT_TYPE:
        return "claimed"
    if breq == SKIPPED_UNCLAIMED_REQUEST:
        return "unclaimed"
    return None


def _report_handler():
    from amaranth import Module, Cat, Const, Mux
    from luna.gateware.usb.usb2.request import USBRequestHandler
    from luna.gateware.usb.stream import USBInStreamInterface
    from luna.gateware.stream.generator import StreamSerializer

    class ReportDescriptorHandler(USBRequestHandler):
        """Stateless application handler: claims GET_DESCRIPTOR(0x22, *) only."""

        def elaborate(self, platform):
            m = Module()
            interface = self.interface
            setup = interface.setup
            n = len(REPORT)
            m.submodules.transmitter = transmitter = StreamSerializer(
                data_length=n, domain="usb", stream_type=USBInStreamInterface, max_length_width=5)
            m.d.comb += [
                Cat(*transmitter.data).eq(Const(int.from_bytes(REPORT, "little"), 8 * n)),
                transmitter.max_length.eq(Mux(setup.length < n, setup.length, n)),
            ]
            with m.If(is_report_descriptor_request(setup)):
                m.d.comb += interface.claim.eq(1)
                with m.If(setup.value[0:8] == 0):
                    m.d.comb += [
                        transmitter.stream.attach(interface.tx),
                        transmitter.start.eq(interface.data_requested),
                        interface.handshakes_out.ack.eq(interface.status_requested),
                    ]
                with m.Else():
                    m.d.comb += interface.handshakes_out.stall.eq(interface.data_requested | interface.status_requested)
            return m

    return ReportDescriptorHandler()


class SkipDevice(H.FullDevice):
    def _add_control(self, usb):
        control = usb.add_standard_control_endpoint(
            self.collection, skiplist=[is_report_descriptor_request, is_set_interface_request])
        control.add_request_handler(_report_handler())


class SkipRig(H.Rig):
    def __init__(self):
        self.kind = "skip"
        self.dut = SkipDevice()
        self.in_ports = {1: "ep1", 4: "ep4i"}
        self.out_ports = {2: "ep2", 4: "ep4o"}
        self.descriptors = H.descriptor_table(self.dut.collection)
        self.descriptors[(REPORT_TYPE, 0)] = REPORT
        self.acm = False
        ins, outs, self.layout = self.dut.ports()
        self.harness = CycleHarness(self.dut, ins, outs, domain="usb", period=1 / 12e6)

    def new_model(self):
        mps = H.FULL_MPS
        eps = {(1, "in"): M.StreamIn(mps), (2, "out"): M.StreamOut(mps), (3, "in"): M.SignalIn(2),
               (4, "in"): M.StreamIn(mps), (4, "out"): M.StreamOut(mps)}
        return M.DeviceModel(self.descriptors, eps, acm=self.acm)


def rig():
    """The cached "skip" rig, registered under that name so that H.execute("skip", ...) finds it."""
    if "skip" not in H._RIGS:
        H._RIGS["skip"] = SkipRig()
    return H._RIGS["skip"]
