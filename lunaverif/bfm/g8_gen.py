"""Hypothesis strategies shared by the g8 endpoint-level properties (C09, C11, C13, C15, C16, C17).

Everything is built by construction and is JSON-able; the events are the ones understood by
``lunaverif.bfm.g8_ephost.EpHost``."""

from hypothesis import strategies as st

from lunaverif.gen import weighted, long_lists
from lunaverif.bfm.g8_ephost import DELAYS, PID_OUT, PID_SETUP, PID_IN, crc_body

byte = st.integers(0, 255)

#: response delay of the device's inter-packet timers: HS@60 MHz, FS@12 MHz, FS@60 MHz
delay = st.sampled_from(DELAYS)

#: PHY tx_ready pattern (cyclic); always contains a 1 (TxModel appends one otherwise)
phy = st.one_of(
    st.just([1]),
    st.lists(weighted([(1, 3), (0, 1)]), min_size=1, max_size=12),
    st.lists(weighted([(0, 3), (1, 1)]), min_size=2, max_size=10),
)

pid_wait = weighted([(1, 4), (2, 2), (3, 1), (6, 1)])


def segments(value, max_seg=12, max_dwell=40, min_size=1):
    """[(value, dwell), ...] piecewise-constant waveform, used cyclically."""
    dwell = st.one_of(st.integers(1, 6), st.integers(1, max_dwell))
    return st.lists(st.tuples(value, dwell).map(list), min_size=min_size, max_size=max_seg)


ready_segments = st.one_of(
    st.just([[1, 1]]),
    segments(weighted([(1, 2), (0, 1)]), max_dwell=30),
    segments(weighted([(0, 2), (1, 1)]), max_dwell=60),
)

gap = weighted([(2, 3), (0, 2), (1, 1), (5, 1), (12, 1)])


def in_mine(ep, p_ack=3, p_none=2):
    return st.fixed_dictionaries(dict(
        k=st.just("in"), ep=st.just(ep), mine=st.just(True),
        hs=weighted([("ack", p_ack), ("none", p_none)]),
        gap=gap, ack_delay=st.integers(1, 6), timeout=st.integers(1, 8)))


def in_other(eps):
    return st.fixed_dictionaries(dict(
        k=st.just("in"), ep=st.sampled_from(eps), mine=st.just(False),
        hs=weighted([("ack", 3), ("none", 1)]), other_len=st.integers(0, 6),
        gap=gap, ack_delay=st.integers(1, 6)))


def _data_fields(payload, corrupt):
    return dict(
        dpid=weighted([(0, 3), (1, 3), (2, 1), (3, 1)]),
        lead=st.integers(1, 3), period=weighted([(1, 4), (2, 2), (3, 1), (5, 1)]),
        jitter=st.lists(st.integers(0, 2), max_size=3), trail=st.integers(0, 2),
        tok2data=st.integers(2, 12), gap=gap,
        data=st.builds(crc_body, payload, corrupt).map(list))


def out_other(eps, max_len=9):
    """OUT or SETUP transaction to some endpoint the DUT must ignore (its data is visible on the shared rx)."""
    return st.fixed_dictionaries(dict(
        k=st.just("out"), ep=st.sampled_from(eps), pid=weighted([(PID_OUT, 4), (PID_SETUP, 1)]),
        **_data_fields(st.lists(byte, max_size=max_len),
                       st.one_of(st.none(), st.tuples(st.just("flip"), st.integers(0, 200)).map(list)))))


def foreign(max_len=6):
    return st.fixed_dictionaries(dict(
        k=st.just("foreign"), pid=st.sampled_from([PID_IN, PID_OUT]), gap=gap,
        data=st.one_of(st.none(), st.builds(crc_body, st.lists(byte, max_size=max_len)).map(list)),
        dpid=st.sampled_from([0, 1]), lead=st.integers(1, 2), period=st.integers(1, 2), trail=st.integers(0, 1)))


def ping(eps):
    return st.fixed_dictionaries(dict(k=st.just("ping"), ep=st.sampled_from(eps), gap=gap))


sof = st.fixed_dictionaries(dict(k=st.just("sof"), frame=st.integers(0, 0x7FF), gap=gap))
idle = st.fixed_dictionaries(dict(k=st.just("idle"), n=st.one_of(st.integers(1, 10), st.integers(1, 80)), gap=st.just(0)))


def background(my_ep, direction, with_sof=True):
    """Traffic an endpoint must ignore: other endpoint numbers in either direction, the same number in the
    opposite direction, SOFs, PINGs, foreign-device transactions, idle time."""
    others = [e for e in range(16) if e != my_ep]
    ins = others if direction == "in" else list(range(16))      # IN tokens the DUT must not answer
    outs = others if direction == "out" else list(range(16))    # OUT tokens the DUT must not take
    pings = others if direction == "out" else list(range(16))
    kinds = [in_other(ins), out_other(outs), foreign(), ping(pings), idle]
    if with_sof:
        kinds.append(sof)
    return st.one_of(*kinds)
