"""Closed-loop BFM for a SuperSpeed IN stream endpoint at its SuperSpeedEndpointInterface (g5, C46).

It plays, cycle by cycle and using only DUT outputs of earlier cycles:
  * the stream producer (valid held until ready, payload stable, generated gaps),
  * the transaction-packet generator behind handshakes_out (ready / done; a request strobed while ready takes
    `tp_delay` cycles, exactly like TransactionPacketGenerator in front of a header queue),
  * the data-packet transmitter behind interface.tx (ready pattern shaped like DataPacketTransmitter + link
    transmitter: first word normally taken at once, then a header-send stall, then a generated pattern),
  * a legal USB 3 host for one non-bursting bulk IN endpoint (USB 3.2 §8.10-§8.12):
      - IN request = ACK TP(seq = next expected, NumP = 1); one outstanding request at a time;
      - DP received well  -> ACK TP(seq+1, NumP = 1: also asks for the next | NumP = 0: stops polling for a while);
      - DP received badly -> ACK TP(same seq, Rty = 1, NumP = 1)   (at most two retries per packet);
      - NRDY -> no IN request until the device has sent ERDY -- or, when the case carries a `repoll` plan, the host
        resumes polling the flow-controlled endpoint on its own after a generated delay (USB 3.2 8.10.1 lets a host
        resume transactions to a flow-controlled endpoint without having received an ERDY); unless `repoll_race`
        is set such a re-poll is only issued while the awaited packet is still incomplete in the stream;
      - stray ACK TPs addressed to other endpoints.

Everything it did and saw is logged as events for the oracle (props/c46.py); the BFM itself judges nothing.
"""

_CNT = {1: 1, 3: 2, 7: 3, 15: 4}


class InEndpointBfm:
    OUTS = ["sready", "tvalid", "tfirst", "tlast", "tdata", "zlp", "tlen", "tseq", "tep", "tdir",
            "nrdy", "erdy", "hs_ep"]

    def __init__(self, case, ep, n_expected):
        self.ep = ep
        self.c = case
        self.n_expected = n_expected
        # ---- stream producer ----
        self.words = []
        for tr in case["transfers"]:
            data = bytes(tr["data"])
            n = len(data)
            for off in range(0, n, 4):
                chunk = data[off:off + 4]
                self.words.append(dict(payload=int.from_bytes(chunk.ljust(4, b"\0"), "little"),
                                       mask=(1 << len(chunk)) - 1, first=int(off == 0),
                                       last=int(off + 4 >= n and tr["last"])))
        self.wi = 0
        self.sgaps = case["sgaps"]
        self.sgap_i = 0
        self.sgap_left = case["sdelay"]
        self.s_presenting = False
        # ---- TP generator model ----
        self.gen_busy = 0
        self.gen_kind = None
        # ---- tx consumer ----
        self.txp = case["txr"]
        self.tx_k = None
        # ---- host ----
        self.hseq = 0
        self.hstate = "IDLE"            # IDLE / WAIT / FLOW
        self.htimer = case["hstart"]
        self.hplan = case["hplan"]
        self.hplan_i = 0
        self.pending_tp = None
        self.wait_since = 0
        self.retries = 0
        self.good = 0                   # data packets the host accepted
        self.noise = list(case["noise"])
        self.noise_at = self.noise[0]["gap"] if self.noise else None
        self.final_done = False
        self.quiet = 0
        # host re-polls during flow control (absent in old cases: never)
        self.repoll = list(case.get("repoll", []))
        self.repoll_i = 0
        self.repoll_timer = None
        self.repoll_race = case.get("repoll_race", 0)
        self.done_words = case.get("done_words")
        # ---- logs ----
        self.events = []
        self.accept_cycle = []          # cycle in which stream word k was accepted
        self.cur_dp = None
        self.inputs = []
        self.stop_reason = None

    # ------------------------------------------------------------------------------------------
    def _decision(self):
        d = self.hplan[self.hplan_i % len(self.hplan)]
        self.hplan_i += 1
        return d

    def _host_send(self, vec, t, seq, nump, rty, ep=None, fresh=False):
        ep = self.ep if ep is None else ep
        self.events.append(dict(e="host_ack", t=t, seq=seq, nump=nump, rty=rty, ep=ep, fresh=fresh))
        vec.update(ack=1, hep=ep, nump=nump, rty=rty, hseq=seq)

    def _host_got_dp(self, dp):
        if self.hstate != "WAIT":
            dp["unsolicited"] = True
            self.stop_reason = "anomaly"            # the oracle fails at this event; no point in going on
            return
        if dp.get("truncated") or dp["framing"] or dp["seq"] != self.hseq:
            self.stop_reason = "anomaly"
        d = self._decision()
        bad = bool(dp.get("truncated") or dp["framing"]) or (d["verdict"] == "retry" and self.retries < 2)
        self.hstate = "IDLE"
        self.htimer = d["delay"] + 1
        if bad:
            dp["host"] = "retry"
            self.retries += 1
            self.pending_tp = (self.hseq, 1, 1)
        else:
            dp["host"] = "ack"
            self.retries = 0
            if dp["seq"] == self.hseq:
                self.hseq = (self.hseq + 1) % 32
                self.good += 1
            else:
                dp["host"] = "unexpected-seq"
            stop = d["verdict"] == "ack_stop"
            self.pending_tp = (self.hseq, 0 if stop else 1, 0)

    # ------------------------------------------------------------------------------------------
    def step(self, t, prev):
        ev = self.events
        pin = self.inputs[-1] if self.inputs else None
        activity = False

        # ---------- digest cycle t-1 ----------
        if prev is not None:
            if pin["svalid"] and prev.sready:
                self.accept_cycle.append(t - 1)
                self.wi += 1
                self.s_presenting = False
                self.sgap_left = self.sgaps[self.sgap_i % len(self.sgaps)]
                self.sgap_i += 1
                activity = True
            if self.gen_busy > 0:
                self.gen_busy -= 1
                activity = True
            for kind, strobe in (("nrdy", prev.nrdy), ("erdy", prev.erdy)):
                if strobe:
                    if pin["gready"]:
                        self.gen_busy = self.c["tp_delay"] + 1
                        self.gen_kind = kind
                        ev.append(dict(e="tp_req", t=t - 1, kind=kind, hs_ep=prev.hs_ep))
                        activity = True
                    elif kind == "nrdy":
                        ev.append(dict(e="tp_lost", t=t - 1, kind=kind))
            if pin["gdone"]:
                ev.append(dict(e="tp_sent", t=t - 1, kind=self.gen_kind))
                if self.gen_kind == "nrdy" and self.hstate == "WAIT":
                    self.hstate = "FLOW"
                    self.repoll_timer = None
                    if self.repoll:
                        d = self.repoll[self.repoll_i % len(self.repoll)]
                        self.repoll_i += 1
                        self.repoll_timer = d - 1 if d > 0 else None
                elif self.gen_kind == "erdy" and self.hstate == "FLOW":
                    self.hstate = "IDLE"
                    self.repoll_timer = None
                    self.htimer = self._decision()["delay"]
            if prev.zlp:
                dp = dict(e="dp", t0=t - 1, t1=t - 1, data=b"", seq=prev.tseq, length=prev.tlen, ep=prev.tep,
                          dir=prev.tdir, zlp=True, framing=None)
                ev.append(dp)
                self._host_got_dp(dp)
                activity = True
            if prev.tvalid:
                activity = True
                if self.cur_dp is None:
                    self.cur_dp = dict(e="dp", t0=t - 1, data=bytearray(), seq=prev.tseq, length=prev.tlen,
                                       ep=prev.tep, dir=prev.tdir, zlp=False, framing=None, nwords=0, held=None)
                    self.tx_k = 0
                dp = self.cur_dp
                cur = (prev.tvalid, prev.tfirst, prev.tlast, prev.tdata)
                if dp["held"] is not None and dp["held"] != cur and dp["framing"] is None:
                    dp["framing"] = f"cycle {t-1}: word changed while valid and not ready"
                if pin["tready"]:
                    dp["held"] = None
                    cnt = _CNT.get(prev.tvalid)
                    if cnt is None and dp["framing"] is None:
                        dp["framing"] = f"cycle {t-1}: byte-valid mask {prev.tvalid:#06b}"
                    cnt = cnt or 0
                    if prev.tfirst != int(dp["nwords"] == 0) and dp["framing"] is None:
                        dp["framing"] = f"cycle {t-1}: first={prev.tfirst} on word {dp['nwords']}"
                    if not prev.tlast and cnt != 4 and dp["framing"] is None:
                        dp["framing"] = f"cycle {t-1}: partial word that is not last"
                    dp["data"] += prev.tdata.to_bytes(4, "little")[:cnt]
                    dp["nwords"] += 1
                    if prev.tlast:
                        self._close_dp(t - 1)
                else:
                    dp["held"] = cur
            elif self.cur_dp is not None:
                dp = self.cur_dp
                dp["framing"] = dp["framing"] or (f"cycle {t-1}: tx.valid dropped before a word with last was "
                                                  f"taken ({dp['nwords']} words taken)")
                dp["truncated"] = True
                self._close_dp(t - 1)

        if self.stop_reason == "anomaly":
            return None

        # ---------- inputs for cycle t ----------
        vec = dict(svalid=0, sfirst=0, slast=0, sdata=0, ack=0, hep=0, nump=0, rty=0, hseq=0,
                   gready=0, gdone=0, tready=0)
        if self.wi < len(self.words):
            if not self.s_presenting and self.sgap_left > 0:
                self.sgap_left -= 1
                activity = True
            else:
                self.s_presenting = True
                w = self.words[self.wi]
                vec.update(svalid=w["mask"], sfirst=w["first"], slast=w["last"], sdata=w["payload"])
        if self.gen_busy == 0:
            vec["gready"] = 1
        elif self.gen_busy == 1:
            vec["gdone"] = 1
        if self.tx_k is None:
            vec["tready"] = self.txp["idle"]
        else:
            self.tx_k += 1
            k = self.tx_k
            if k <= self.txp["stall"]:
                vec["tready"] = 0
            else:
                pat = self.txp["pat"]
                vec["tready"] = pat[(k - self.txp["stall"] - 1) % len(pat)]
        # host
        if self.hstate == "IDLE":
            activity = True
            if self.htimer > 0:
                self.htimer -= 1
            elif self.pending_tp is not None:
                seq, nump, rty = self.pending_tp
                self.pending_tp = None
                self._host_send(vec, t, seq, nump, rty)
                if nump:
                    self.hstate = "WAIT"
                    self.wait_since = t
                else:
                    self.htimer = self._decision()["delay"] + 2
            elif self.good < self.n_expected or not self.final_done:
                # fresh IN request (also one final poll after everything was delivered)
                if self.good >= self.n_expected:
                    self.final_done = True
                self._host_send(vec, t, self.hseq, 1, 0, fresh=True)
                self.hstate = "WAIT"
                self.wait_since = t
            else:
                activity = False
        elif self.hstate == "WAIT":
            activity = True
            if self.cur_dp is not None or self.gen_busy:
                self.wait_since = t
            elif t - self.wait_since > 40:
                ev.append(dict(e="host_timeout", t=t))
                self.stop_reason = "unanswered"
                return None
        elif self.hstate == "FLOW" and self.repoll_timer is not None:
            activity = True
            if self.repoll_timer > 0:
                self.repoll_timer -= 1
            else:
                self.repoll_timer = None
                complete = self.done_words is not None and self.good < len(self.done_words) and \
                    self.wi > self.done_words[self.good]
                if self.good < self.n_expected and (self.repoll_race or not complete):
                    # the host resumes polling the flow-controlled endpoint without having seen an ERDY
                    self._host_send(vec, t, self.hseq, 1, 0, fresh=True)
                    self.events[-1]["repoll"] = True
                    self.hstate = "WAIT"
                    self.wait_since = t
        if not vec["ack"] and self.noise and self.noise_at <= t:
            nz = self.noise.pop(0)
            self.noise_at = t + 1 + (self.noise[0]["gap"] if self.noise else 0)
            other = (self.ep + 1 + nz["dep"] % 15) % 16         # never our own endpoint number
            self._host_send(vec, t, nz["seq"], nz["nump"], nz["rty"], ep=other)
        # termination: everything delivered (or nothing can happen any more) and 24 quiet cycles
        self.quiet = 0 if activity else self.quiet + 1
        if self.quiet > 24:
            self.stop_reason = "quiet"
            return None
        self.inputs.append(vec)
        return vec

    def _close_dp(self, t1):
        dp = self.cur_dp
        dp["t1"] = t1
        dp["data"] = bytes(dp["data"])
        del dp["held"]
        self.events.append(dp)
        self.cur_dp = None
        self.tx_k = None
        self._host_got_dp(dp)
