"""Family-A helpers shared by C01/C02/C04/C06/C21: packet-class strategies (by construction) and
window bookkeeping on top of bfm/utmi_rx.render.

An *event* is a utmi_rx packet event {"bytes": [...], "lead", "gaps", "trail", "idle"} plus optional
check-specific keys.  Every strategy here builds the byte string directly (no filtering); the oracles
never look at how an event was built -- they re-classify the literal bytes with ref.usb2.parse().
"""
from hypothesis import strategies as st

from lunaverif.gen import weighted
from lunaverif.ref import usb2
from lunaverif.ref.crc import usb2_crc5, usb2_crc16

BYTE = st.integers(0, 255)


def timing(min_idle=2, max_idle=30, big_gaps=True):
    """lead >= 1; per-byte gaps (0 = back to back as on HS, ~40 = FS byte spacing on a 60 MHz clock);
    trail 0 = last byte in the final active cycle; idle >= min_idle cycles of rx_active low."""
    gap = weighted([(0, 8), (1, 3), (2, 2), (3, 1), (5, 1), (7, 1)] + ([(39, 1)] if big_gaps else []))
    return st.fixed_dictionaries(dict(
        lead=weighted([(1, 5), (2, 2), (3, 1), (6, 1)]),
        gaps=st.lists(gap, min_size=1, max_size=4),
        trail=weighted([(0, 3), (1, 4), (2, 1), (4, 1)]),
        idle=st.integers(min_idle, max_idle) if max_idle > min_idle else st.just(min_idle),
    ))


def with_timing(bytes_strategy, extra=None, **tkw):
    """bytes strategy (list of ints or dict with 'bytes') -> event strategy."""
    def mk(b, t):
        ev = dict(t)
        if isinstance(b, dict):
            ev.update(b)
        else:
            ev["bytes"] = list(b)
        return ev
    return st.builds(mk, bytes_strategy, timing(**tkw))


# ---------------------------------------------------------------------------- byte-string builders
def flip_bits(data, positions):
    out = list(data)
    for p in positions:
        p %= 8 * len(out)
        out[p // 8] ^= 1 << (p % 8)
    return out


def token_bytes(pid, addr, endp):
    return list(usb2.token(pid, addr, endp))


def sof_bytes(frame):
    return list(usb2.sof(frame))


def data_bytes(pid, payload):
    return list(usb2.data_packet(pid, payload))


TOKEN_PID = st.sampled_from(usb2.TOKEN_PIDS)
DATA_PID = weighted([(usb2.PID_DATA0, 3), (usb2.PID_DATA1, 3), (usb2.PID_DATA2, 1), (usb2.PID_MDATA, 1)])
HS_PID = st.sampled_from(usb2.HANDSHAKE_PIDS)
ADDR = st.one_of(st.sampled_from([0, 0, 1, 0x2A, 0x55, 0x7F]), st.integers(0, 127))
ENDP = st.one_of(st.sampled_from([0, 0, 1, 15]), st.integers(0, 15))
FRAME = st.one_of(st.sampled_from([0, 1, 0x7FF, 0x400, 0x3FF]), st.integers(0, 0x7FF))


def payloads(max_len=70, average=8):
    from lunaverif.gen import long_lists
    return st.one_of(
        st.sampled_from([[], [0], [0xFF], [0, 0], [0xFF, 0xFF]]),
        long_lists(BYTE, max_size=max_len, average=average),
        long_lists(st.sampled_from([0x00, 0xFF, 0x80, 0x01]), max_size=max_len, average=average),
    )


def bad_check_nibble(first_byte_strategy):
    """PID byte whose check nibble is wrong: flip 1..4 bits of the upper nibble."""
    return st.builds(lambda b, m: b ^ (m << 4), first_byte_strategy, st.integers(1, 15))


def data_good(pid=DATA_PID, payload=None):
    return st.builds(data_bytes, pid, payload if payload is not None else payloads())


def data_bad_crc(pid=DATA_PID, payload=None):
    """CRC16 corrupted by 1..3 bit flips anywhere after the PID, by swapping the two CRC bytes, or by
    complementing the CRC (all constructions change the packet; the oracle re-parses the bytes)."""
    pl = payload if payload is not None else payloads()

    def mk(pid, payload, how, pos):
        p = data_bytes(pid, payload)
        if how == 0:
            body = flip_bits(p[1:], pos)
            return [p[0]] + body
        if how == 1:
            q = p[:-2] + [p[-1], p[-2]]
            if q == p:
                q[-1] ^= 1
            return q
        if how == 2:
            return p[:-2] + [p[-2] ^ 0xFF, p[-1] ^ 0xFF]
        # drop one payload/CRC byte from the end (CRC no longer matches what precedes it), keep >= 2 bytes
        q = p[:-1] if len(p) > 3 else p[:-2] + [p[-2] ^ 0x10, p[-1]]
        return q
    return st.builds(mk, pid, pl, weighted([(0, 5), (1, 1), (2, 1), (3, 2)]),
                     st.lists(st.integers(0, 4095), min_size=1, max_size=3))


def data_short(pid=DATA_PID):
    """data PID followed by 0 or 1 bytes (shorter than a CRC)."""
    return st.builds(lambda pid, tail: [usb2.pid_byte(pid)] + tail, pid,
                     st.one_of(st.just([]), st.lists(BYTE, min_size=1, max_size=1)))


def handshake_good(pid=HS_PID):
    return st.builds(lambda p: [usb2.pid_byte(p)], pid)


def garbage(max_len=14):
    return st.lists(BYTE, min_size=1, max_size=max_len)


# ---------------------------------------------------------------------------- windows
def ends(spans):
    """first idle cycle after each event (the cycle in which the DUT sees rx_active low)."""
    return [last + 1 for (_, last) in spans]


def describe(ev):
    return usb2.parse(ev.get("bytes", []))["kind"]


def hexs(b):
    return " ".join(f"{x:02x}" for x in b)
