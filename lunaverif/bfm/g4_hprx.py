"""Link-partner BFM + reference model for LUNA's HeaderPacketReceiver (C37, C38).

The partner is a *legal* USB3 link partner as seen from the DUT's ports:
  * it learns its header credits and the sequence number to continue from only from the link commands the DUT
    transmits (decoded from the DUT's source stream, one cycle late, like a registered interface);
  * it sends a new header only while it holds a credit and has fewer than four unacknowledged headers (its Tx
    header buffers); retransmissions keep their sequence number and do not use
    a new credit; a retransmitted header has the DL (delayed) bit set;
  * when it has received an LBAD it finishes the word it is sending, waits a generated delay, sends LRTY
    (the DUT's `retry_received` strobe fires one cycle after the LRTY command word, as PacketTransmitter's
    detector does) and retransmits every unacknowledged header in order;
  * what it *intends* to send may be corrupted "on the wire" (CRC-16 / CRC-5 bit flips) without its knowledge;
  * a header with a wrong sequence number (CRCs valid) is only ever the last header it sends (the DUT requests
    recovery for it, which leaves U0);
  * C38: at a chosen cycle the link goes down (enable low, optionally usb_reset); the partner keeps transmitting
    for a few more words, then sends training-set-like traffic, and after re-entry waits for the DUT's
    advertisement and continues from the advertised sequence number.
"""
from collections import deque

from lunaverif.ref import g4_usb3 as R

TS1_WORDS = [(0xBCBCBCBC, 0xF), (0x4A4A0000, 0), (0x4A4A4A4A, 0), (0x4A4A4A4A, 0)]
TS2_WORDS = [(0xBCBCBCBC, 0xF), (0x45450000, 0), (0x45454545, 0), (0x45454545, 0)]

# A transmitter keeps every header until it is acknowledged and has four buffers to do so (as LUNA's own
# PacketTransmitter): a legal partner never has more than four unacknowledged headers in flight.
TX_HEADER_BUFFERS = 4

IN_NAMES = ["sv", "sd", "sc", "enable", "usb_reset", "qready", "sready", "retry_rx", "retry_req", "ka", "rej"]


def make_harness(buffer_count=4):
    from luna.gateware.usb.usb3.link.receiver import HeaderPacketReceiver
    from lunaverif.simkit import CycleHarness
    d = HeaderPacketReceiver(buffer_count=buffer_count)
    q = d.queue.header
    ins = dict(sv=d.sink.valid, sd=d.sink.data, sc=d.sink.ctrl, enable=d.enable, usb_reset=d.usb_reset,
               qready=d.queue.ready, sready=d.source.ready, retry_rx=d.retry_received, retry_req=d.retry_required,
               ka=d.keepalive_required, rej=d.reject_power_state)
    outs = dict(valid=d.source.valid, data=d.source.data, ctrl=d.source.ctrl, qvalid=d.queue.valid,
                q0=q.dw0, q1=q.dw1, q2=q.dw2, qseq=q.sequence_number, qrsv=q.dw3_reserved, qhub=q.hub_depth,
                qdl=q.delayed, qdf=q.deferred, recov=d.recovery_required, lcsent=d.link_command_sent,
                lrty_pending=d.lrty_pending)
    return CycleHarness(d, ins, outs, domain="ss")


def build_header(op, seq, retransmit=False, noise=None):
    """op = ["hdr", wrongseq, bit, dw0, dw1, dw2, type, gaps]; noise = (kind, bit) applied "on the wire":
    kind 0 none, 1 flip of a CRC-16 protected bit (or of the CRC-16), 2 flip of a link-control-word bit.
    wrongseq != 0: the header carries sequence number seq+wrongseq (CRCs valid).  -> (words [(v,d,c)], info)"""
    _, wrongseq, bit, dw0, dw1, dw2, typ, gaps = op
    corrupt, nbit = noise if noise else (0, 0)
    dw0 = (dw0 & ~0x1F & 0xFFFFFFFF) | typ
    wire_seq = (seq + (wrongseq if not retransmit else 0)) & 7
    hw = R.header_words(dw0, dw1, dw2, wire_seq, delayed=int(retransmit))
    if corrupt == 1:
        k = nbit % 112                       # 96 header bits + 16 CRC bits
        if k < 96:
            hw[1 + k // 32] = (hw[1 + k // 32][0] ^ (1 << (k % 32)), 0)
        else:
            hw[4] = (hw[4][0] ^ (1 << (k - 96)), 0)
    elif corrupt == 2:
        hw[4] = (hw[4][0] ^ (1 << (16 + nbit % 16)), 0)
    gapmap = {}
    for pos, n in gaps:
        gapmap[pos % 5] = gapmap.get(pos % 5, 0) + n
    out = []
    for i, (d, c) in enumerate(hw):
        out += [(0, (bit * 2654435761 + i) & 0xFFFFFFFF if n_ % 2 else 0, 0) for n_ in range(gapmap.get(i, 0))]
        out.append((1, d, c))
    return out, dict(seq=seq, wire_seq=wire_seq, dw0=dw0, dw1=dw1, dw2=dw2, corrupt=corrupt, dl=int(retransmit),
                     wrongseq=int(wire_seq != seq))


class AcceptModel:
    """Reference acceptance rules of the statement (independent of the gateware)."""

    def __init__(self):
        self.expected = 0
        self.ignoring = False
        self.accepted = []        # header dicts, in order
        self.lbad_triggers = []   # headers that must trigger an LBAD
        self.seq_errors = []      # headers rejected for their sequence number
        self.last_received = 7    # sequence number of the last accepted header (7 = none since reset)

    def header(self, h):
        """h: dict with crc16_ok, crc5_ok, seq (+ anything).  Returns 'accept' | 'bad' | 'ignored' | 'seq'."""
        if not (h["crc16_ok"] and h["crc5_ok"]):
            if self.ignoring:
                return "ignored"
            self.ignoring = True
            self.lbad_triggers.append(h)
            return "bad"
        if self.ignoring:
            return "ignored"
        if h["seq"] != self.expected:
            self.seq_errors.append(h)
            return "seq"
        self.accepted.append(h)
        self.expected = (self.expected + 1) & 7
        self.last_received = h["seq"]
        return "accept"

    def retry(self):
        self.ignoring = False

    def link_down(self, usb_reset):
        self.ignoring = False
        if usb_reset:
            self.expected = 0
            self.last_received = 7


class Partner:
    """Closed-loop driver (CycleHarness.run_driver).  See module docstring.

    case keys: ops, noise, lbad_delay, qready, sready, strobes, and optionally down (C38):
      down = dict(at=cycle, mode=0 disable | 1 warm reset | 2 hot reset, rst_off, rst_len, length, cont, traffic,
                  sready_down, post=[hdr ops], dstrobes=[[anchor, off, kind], ...] (optional, see step()))
    """

    def __init__(self, case, down_at=None, drain=60):
        self.case = case
        self.ops = list(case["ops"])
        self.noise = deque(tuple(n) for n in case.get("noise", []))
        self.lbad_delays = list(case.get("lbad_delay", [2])) or [2]
        self.lbad_i = 0
        self.qpat = list(case["qready"]) or [1]
        self.spat = list(case["sready"]) or [1]
        if not any(self.spat):
            self.spat.append(1)
        self.strobes = deque((d, k) for d, k in case.get("strobes", []))
        self.strobe_wait = self.strobes[0][0] if self.strobes else None
        self.down = case.get("down")
        self.down_at = down_at if self.down is not None else None     # no link-down unless a cycle is given
        self.drain_len = drain
        # partner state
        self.wq = deque()
        self.credits = 0
        self.next_seq = None
        self.unacked = []                 # [(seq, op)]
        self.lbad_flag = False
        self.lbad_wait = None
        self.terminal = False
        self.expect_cmd = False
        self.adv_seen = False
        self.phase = "up"                 # up | down | post | drain
        self.op_i = 0
        self.idle_left = 0
        self.retry_strobe_at = None
        self.quiet = 0
        self.drain_count = 0
        self.cont_left = 0
        self.down_words = deque()
        self.post_ops = deque()
        self.up_at = None
        self.down_strobes = {}
        self.down_override = {}
        self.post_cmds = 0                # link commands seen since re-entry (C38: strobes only after the advertisement)
        # logs
        self.log = []                     # per cycle dict of applied inputs
        self.sent_headers = []            # info dicts (+ 'end' cycle of DW3)
        self.prev_sready = 0
        self.enable = 1

    # ---------------------------------------------------------------- DUT command stream, as the partner sees it
    def _observe(self, t, prev):
        if prev is None:
            return
        if prev.valid and self.prev_sready:
            w = (prev.data, prev.ctrl)
            if self.phase == "down":
                self.expect_cmd = False
                return
            if self.expect_cmd:
                self.expect_cmd = False
                dec = R.lc_decode(*w)
                if dec is None:
                    return
                cmd, sub = dec
                self.post_cmds += 1
                if cmd == R.LGOOD:
                    if not self.adv_seen:
                        self.adv_seen = True
                        self.next_seq = (sub + 1) & 7
                        self.unacked = []
                    else:
                        self.unacked = [(s, o) for s, o in self.unacked if s != sub]
                elif cmd == R.LCRD:
                    self.credits += 1
                elif cmd == R.LBAD:
                    self.lbad_flag = True
                    self.lbad_wait = self.lbad_delays[self.lbad_i % len(self.lbad_delays)]
                    self.lbad_i += 1
            elif w == R.LCSTART:
                self.expect_cmd = True

    # ---------------------------------------------------------------- what to send next
    def _enqueue_header(self, op, seq, retransmit):
        noise = self.noise.popleft() if self.noise else None
        if op[1] and not retransmit:
            noise = None                       # a wrong-sequence header arrives intact
        words, info = build_header(op, seq, retransmit, noise)
        info["retransmit"] = retransmit
        self.sent_headers.append(info)
        for i, w in enumerate(words):
            self.wq.append((w, info if i == len(words) - 1 else None))

    def _next_op(self):
        if self.phase == "up":
            return self.ops[self.op_i] if self.op_i < len(self.ops) else None
        return self.post_ops[0] if self.post_ops else None

    def _pop_op(self):
        if self.phase == "up":
            self.op_i += 1
        else:
            self.post_ops.popleft()

    def _refill(self, t):
        """Called (phase up/post) when the word queue is empty and no idle wait is pending."""
        if self.lbad_flag:
            if self.lbad_wait > 0:
                self.lbad_wait -= 1
                return
            self.lbad_flag = False
            for w in R.lc_words(R.LRTY, 0):
                self.wq.append(((1,) + w, None))
            self.wq[-1] = (self.wq[-1][0], "lrty")
            for seq, op in list(self.unacked):
                self._enqueue_header(op, seq, True)
            return
        op = self._next_op()
        if op is None:
            # nothing more to send: wait (bounded) for the outstanding acknowledgements
            self.ack_wait += 1
            if not self.unacked or self.terminal or self.ack_wait > 150:
                self.phase_done = True
            return
        if op[0] == "idle":
            self.idle_left = op[1]
        elif op[0] == "inv":
            for k in range(op[1]):
                self.wq.append(((0, op[2] if k % 2 == 0 else 0, 0), None))
        elif op[0] == "hdr" and not self.terminal:
            if not self.adv_seen or self.credits == 0 or len(self.unacked) >= TX_HEADER_BUFFERS:
                self.stall += 1
                if self.stall <= 120 and not self.gave_up:
                    return                      # keep waiting for a credit (idle word this cycle)
                self.stall = 0                  # no credit for a long time (e.g. the protocol layer never
                self.gave_up = True             # consumes): stop offering new headers in this phase
            else:
                self.stall = 0
                self.credits -= 1
                seq = self.next_seq
                self.next_seq = (seq + 1) & 7
                self.unacked.append((seq, op))
                self._enqueue_header(op, seq, False)
                if op[1]:
                    self.terminal = True
        self._pop_op()

    stall = 0
    gave_up = False
    ack_wait = 0
    phase_done = False

    # ---------------------------------------------------------------- driver entry point
    def step(self, t, prev):
        self._observe(t, prev)
        upd = dict(retry_rx=0, retry_req=0, ka=0, rej=0, usb_reset=0)
        d = self.down
        # ---- link state schedule (C38)
        if d is not None and self.down_at is not None:
            if t == self.down_at:
                self.phase = "down"
                self.enable = 0
                self.cont_left = d["cont"]
                self.lbad_flag = False
                self.down_words = deque()
                for kind in d["traffic"]:
                    if kind == "ts1":
                        self.down_words.extend((1,) + w for w in TS1_WORDS)
                    elif kind == "ts2":
                        self.down_words.extend((1,) + w for w in TS2_WORDS)
                    elif kind == "inv":
                        self.down_words.append((0, 0, 0))
                    elif kind == "invx":
                        self.down_words.append((0, 0x4A4A4A4A, 0))
                    elif kind == "idle":
                        self.down_words.append((1, 0, 0))
                self.up_at = t + d["length"]
                # strobes decoded from the received stream while the link is down (the transmitter's link-command
                # detector is not gated by the link state): [anchor, off, kind] = cycle down_at+off (anchor 0) or
                # up_at-1-off (anchor 1); kind 1 LBAD -> retry_required, 2 LGO_U -> reject_power_state,
                # 3 LRTY -> retry_received.  The command's two words are put on the wire in the two cycles before
                # the strobe where those cycles belong to the partner's down-time traffic.
                self.down_strobes = {}
                self.down_override = {}
                for anchor, off, kind in d.get("dstrobes", ()):
                    s = t + off if anchor == 0 else self.up_at - 1 - off
                    if t <= s < self.up_at:
                        self.down_strobes.setdefault(s, set()).add({1: "retry_req", 2: "rej", 3: "retry_rx"}[kind])
                        cmd = {1: (R.LBAD, 0), 2: (R.LGO_U, 1), 3: (R.LRTY, 0)}[kind]
                        for k, w in enumerate(R.lc_words(*cmd)):
                            self.down_override.setdefault(s - 2 + k, (1,) + w)
            if self.phase == "down":
                rel = t - self.down_at
                if d["mode"] == 1:           # warm reset: usb_reset from the cycle before enable falls
                    if -1 <= rel < d["rst_len"] - 1:
                        upd["usb_reset"] = 1
                elif d["mode"] == 2:         # hot reset: usb_reset inside the down interval
                    lo = min(d["rst_off"], max(0, d["length"] - 2))
                    if lo <= rel < min(lo + d["rst_len"], d["length"] - 1):
                        upd["usb_reset"] = 1
                if t == self.up_at:
                    self.phase = "post"
                    self.enable = 1
                    self.credits = 0
                    self.adv_seen = False
                    self.unacked = []
                    self.lbad_flag = False
                    self.terminal = False
                    self.expect_cmd = False
                    self.wq.clear()
                    self.idle_left = 0
                    self.post_ops = deque(d["post"])
                    self.post_cmds = 0
                    self.phase_done = False
                    self.ack_wait = 0
                    self.stall = 0
                    self.gave_up = False
            elif d["mode"] == 1 and t == self.down_at - 1:
                upd["usb_reset"] = 1
        upd["enable"] = self.enable
        # ---- sink word
        word, tag = None, None
        if self.phase == "down":
            if self.cont_left > 0 and self.wq:
                self.cont_left -= 1
                word, tag = self.wq.popleft()
            else:
                self.cont_left = 0
                self.wq.clear()
                if self.down_words:
                    word = self.down_words.popleft()
                    self.down_words.append(word)
                else:
                    word = (1, 0, 0)
                word = self.down_override.get(t, word)
        else:
            if not self.wq and self.idle_left == 0 and not self.phase_done:
                self._refill(t)
            if self.wq:
                word, tag = self.wq.popleft()
            else:
                if self.idle_left > 0:
                    self.idle_left -= 1
                word = (1, 0, 0)
        if isinstance(tag, dict):
            tag["end"] = t
            tag["enabled_at_end"] = self.enable
        elif tag == "lrty":
            self.retry_strobe_at = t + 1
        if self.retry_strobe_at == t:
            upd["retry_rx"] = 1
            self.retry_strobe_at = None
        upd.update(sv=word[0], sd=word[1], sc=word[2])
        # ---- background strobes (legal in U0 only)
        if self.strobe_wait is not None and self.enable and (
                self.phase == "up" or (self.phase == "post" and self.post_cmds >= 5)):
            if self.strobe_wait == 0:
                _, kind = self.strobes.popleft()
                upd[{0: "ka", 1: "retry_req", 2: "rej"}[kind]] = 1
                self.strobe_wait = self.strobes[0][0] if self.strobes else None
            else:
                self.strobe_wait -= 1
        if self.phase == "down":
            for name in self.down_strobes.get(t, ()):
                upd[name] = 1
        # ---- readies
        draining = self.phase_done and not self.wq and (self.down_at is None or self.phase == "post")
        if draining:
            self.drain_count += 1
        if self.phase == "down" and d.get("sready_down") is not None:
            pat = d["sready_down"]
            sready = pat[(t - self.down_at) % len(pat)]
        else:
            sready = 1 if (draining and self.drain_count > 20) else self.spat[t % len(self.spat)]
        qready = 1 if (draining and self.drain_count > 20) else self.qpat[t % len(self.qpat)]
        upd.update(sready=sready, qready=qready)
        self.prev_sready = sready
        self.log.append(dict(upd, t=t, phase=self.phase))
        # ---- termination: drained and quiet
        if draining and self.drain_count > 20:
            if prev is not None and not prev.valid and not prev.qvalid and not self.lbad_flag:
                self.quiet += 1
            else:
                self.quiet = 0
            if self.quiet >= 12 or self.drain_count > self.drain_len + 200:
                return None
        return upd


# ======================================================================================= trace analysis helpers
def source_commands(log, trace, t0=0, t1=None):
    """Link commands transmitted by the DUT in cycles [t0, t1): list of dicts(start, end, cmd, sub) or a failure
    string.  start = first cycle LCSTART was presented, end = cycle the command word was accepted."""
    t1 = len(trace) if t1 is None else t1
    cmds = []
    state = "idle"
    start = None
    pres = None
    for t in range(t0, t1):
        o = trace[t]
        if not o.valid:
            pres = None
            continue
        w = (o.data, o.ctrl)
        if pres is None:
            pres = t
        if log[t]["sready"]:
            if state == "idle":
                if w != R.LCSTART:
                    return (None, None), (t, f"word ({w[0]:#x},{w[1]:#x}) transmitted in cycle {t} where LCSTART was expected")
                state = "cmd"
                start = pres
            else:
                dec = R.lc_decode(*w)
                if dec is None:
                    return (None, None), (t, f"malformed link command word ({w[0]:#x},{w[1]:#x}) in cycle {t}")
                cmds.append(dict(start=start, end=t, cmd=dec[0], sub=dec[1]))
                state = "idle"
            pres = None
    return (cmds, state), None


def sink_headers(log, t0=0, t1=None):
    """Reference decode of what was driven into the DUT in cycles [t0, t1): header packets with 'end' cycle (cycle
    of DW3)."""
    t1 = len(log) if t1 is None else t1
    idx = [i for i in range(t0, t1) if log[i]["sv"]]
    ev = R.parse_stream([(log[i]["sd"], log[i]["sc"]) for i in idx])
    out = []
    for e in ev:
        if e["kind"] == "hp":
            e = dict(e)
            e["start"] = idx[e["at"]]
            e["end"] = idx[e["at"] + 4]
            out.append(e)
    return out
