"""Host-program construction for the family-B checks: Hypothesis strategies for high-level *items* and the
deterministic expansion of items into the primitive ops of g9_usb2host.

Items (JSON-able):
  {"k":"ctrl","req":[bm,bReq,wValue,wIndex,wLength],"cut":c,"noack":j,"early":e,"again":0|1,"mid":[[item..],..],
   "reset_at":r}
        one control transfer planned from the request (see plan_ctrl): `cut` > 0 abandons it after that many
        bus transactions; `noack` = j > 0 loses the host's ACK of the j-th acknowledged IN (the IN is retried);
        `early` = number of data-stage INs performed before the host moves to the status stage (None: all);
        `again`: one more IN after a STALL; `mid`: [[pos, item], ..] other-endpoint items inserted after transaction
        pos (mod the number of gaps) of the transfer.
  {"k":"in","ep":E,"ack":a}  {"k":"out","ep":E,"n":len,"flip":f}  {"k":"ping","ep":E}  {"k":"sof"}
  {"k":"xin","ep":E,"n":len,"ack":a}  (feed + wait + IN)   {"k":"feed","ep":E,"n":len,"last":l}  {"k":"sig","v":V}  {"k":"idle","n":N}  {"k":"reset","n":N}
  {"k":"probe","addr":A|"dev","ack":a}      IN to the status endpoint at an explicit address
  {"k":"xdev","dir":"in"|"out"|"setup","ep":E,"xor":k,"ack":a,"n":N,"req":[..]}   a transaction of the host with
        another device (address = ours XOR k): IN token [+ the host's ACK of that device's -- here invisible --
        data after N more idle cycles], OUT token + N data bytes, SETUP token + request; our device stays silent
"""
from hypothesis import strategies as st

from lunaverif.gen import long_lists, weighted
from lunaverif.ref import g9_device_model as M

timing_lists = st.lists(st.integers(0, 8), min_size=1, max_size=10)
ready_patterns = st.one_of(
    st.just([1]),
    st.lists(weighted([(1, 3), (0, 1)]), min_size=1, max_size=24),
    st.lists(weighted([(1, 1), (0, 6)]), min_size=4, max_size=40),
)


def env_fields():
    """tm: packet timing values; txr: PHY tx_ready pattern; iv: IN-stream producer valid pattern; ordy: OUT-stream
    consumer ready pattern (all used cyclically by absolute cycle, forced to contain a 1)."""
    return dict(tm=timing_lists, txr=ready_patterns, iv=ready_patterns, ordy=ready_patterns)


def env_of(case):
    return dict(tm=case["tm"], txr=case["txr"], in_valid=case["iv"], out_ready=case["ordy"])


# ---------------------------------------------------------------------------------------------- planning
def plan_ctrl(req, descriptors, acm=False, early=None, again=0):
    """-> (info, [primitive ops]) for a complete transfer of `req` by a legal host."""
    info = M.classify_request(tuple(req), descriptors, acm)
    kind = info["kind"]
    bm, breq, wvalue, windex, wlength = req
    ops = [dict(op="setup", req=list(req), stage="setup")]
    if kind == "get":
        n = 1 if info["data"] is None else len(M.chunks(info["data"]))
        if early is not None:
            n = min(n, early)
        ops += [dict(op="in", ep=0, ack=1, stage="data")] * n
        ops.append(dict(op="out", ep=0, data=[], pid=1, stage="status"))
    elif kind == "stall-data":
        ops.append(dict(op="in", ep=0, ack=1, stage="data"))
        if again:
            ops.append(dict(op="in", ep=0, ack=1, stage="after-stall"))
    elif kind == "nodata":
        ops.append(dict(op="in", ep=0, ack=1, stage="status"))
    elif kind == "out-data":
        ops.append(dict(op="out", ep=0, data=[(7 * i + wvalue) & 0xFF for i in range(wlength)], pid=1, stage="data"))
        ops.append(dict(op="in", ep=0, ack=1, stage="status"))
    elif kind == "unsupported":
        if wlength and bm >> 7:
            if early == 0:
                ops.append(dict(op="out", ep=0, data=[], pid=1, stage="status"))
            else:
                ops.append(dict(op="in", ep=0, ack=1, stage="data"))
        elif wlength:
            first = min(wlength, 64)
            ops.append(dict(op="out", ep=0, data=[(3 * i + breq) & 0xFF for i in range(first)], pid=1, stage="data"))
            if wlength > 64 and early != 1:
                ops.append(dict(op="out", ep=0, data=[(5 * i) & 0xFF for i in range(min(wlength - 64, 64))], pid=0,
                                stage="data"))
            ops.append(dict(op="in", ep=0, ack=1, stage="status"))
        else:
            ops.append(dict(op="in", ep=0, ack=1, stage="status"))
        if again:
            ops.append(dict(op="in", ep=0, ack=1, stage="after-stall"))
    else:
        raise ValueError(f"cannot plan {kind} request {req}")
    return info, [dict(o) for o in ops]


class Builder:
    """Expands items into a primitive program and keeps the structural facts classification needs."""

    def __init__(self, descriptors, acm=False, sig_ep=3):
        self.descriptors = descriptors
        self.acm = acm
        self.sig_ep = sig_ep
        self.prog = []
        self.counter = 0
        self.transfers = []       # dict(index, req, info, first, last, abandoned, planned, foreign_inside)
        self.labels = set()

    def _bytes(self, n):
        out = [(self.counter + i) & 0xFF for i in range(n)]
        self.counter += n
        return out

    def add(self, op):
        self.prog.append(op)
        return len(self.prog) - 1

    def item(self, it, inside=None):
        k = it["k"]
        if k == "ctrl":
            return self.ctrl(it)
        if k == "in":
            self.add(dict(op="in", ep=it["ep"], ack=it.get("ack", 1), x=inside))
        elif k == "out":
            self.add(dict(op="out", ep=it["ep"], data=self._bytes(it["n"]), flip=it.get("flip", 0), x=inside))
        elif k == "xin":
            # a complete IN transfer of n bytes: feed, give the endpoint time to take it, fetch the first packet
            self.add(dict(op="feed", ep=it["ep"], data=self._bytes(it["n"]), last=1))
            self.add(dict(op="idle", n=it["n"] + 6))
            self.add(dict(op="in", ep=it["ep"], ack=it.get("ack", 1), x=inside))
        elif k == "ping":
            self.add(dict(op="ping", ep=it["ep"], x=inside))
        elif k == "sof":
            self.add(dict(op="sof", frame=(self.counter * 7 + len(self.prog)) & 0x7FF, x=inside))
        elif k == "feed":
            self.add(dict(op="feed", ep=it["ep"], data=self._bytes(it["n"]), last=it.get("last", 1)))
        elif k == "sig":
            self.add(dict(op="sig", value=it["v"]))
        elif k == "idle":
            self.add(dict(op="idle", n=it["n"]))
        elif k == "reset":
            self.add(dict(op="reset", n=it["n"]))
        elif k == "probe":
            self.add(dict(op="in", ep=self.sig_ep, ack=it.get("ack", 0), addr=it.get("addr", "dev"), probe=1, x=inside))
        elif k == "xdev":
            # one transaction between the host and ANOTHER device on the bus (address = ours XOR xor, xor != 0)
            addr = {"xor": (it.get("xor", 1) & 0x7F) or 1}
            d = it.get("dir", "in")
            if d == "in":
                self.add(dict(op="in", ep=it.get("ep", 0), addr=addr, ack=0, xack=it.get("ack", 1), gap=it.get("n", 0),
                              xdev=1, x=inside))
            elif d == "out":
                self.add(dict(op="out", ep=it.get("ep", 0), addr=addr, data=self._bytes(it.get("n", 0)), xdev=1, x=inside))
            elif d == "setup":
                self.add(dict(op="setup", addr=addr, req=list(it["req"]), xdev=1, x=inside))
            else:
                raise ValueError(d)
        else:
            raise ValueError(k)

    def ctrl(self, it):
        info, ops = plan_ctrl(it["req"], self.descriptors, self.acm, early=it.get("early"), again=it.get("again", 0))
        # lost host ACK of the j-th acknowledged IN: the IN is issued once without ACK, then retried
        j = it.get("noack", 0)
        if j:
            ins = [i for i, o in enumerate(ops) if o["op"] == "in" and o.get("ack")]
            if ins:
                i = ins[(j - 1) % len(ins)]
                ops.insert(i, dict(ops[i], ack=0, lost=1))
        planned = len(ops)
        cut = it.get("cut", 0)
        if cut:
            ops = ops[:1 + (cut - 1) % (planned - 1)] if planned > 1 else ops
        abandoned = len(ops) < planned
        tr = dict(index=len(self.transfers), req=list(it["req"]), info=info, name=info.get("name", info["kind"]),
                  abandoned=abandoned, planned=planned, done=len(ops), foreign_inside=0, first=len(self.prog),
                  lost=bool(j), stages=[o["stage"] for o in ops])
        self.transfers.append(tr)
        mid = it.get("mid") or []
        reset_at = it.get("reset_at")
        for i, o in enumerate(ops):
            o["x"] = tr["index"]
            self.add(o)
            last = i == len(ops) - 1
            if reset_at is not None and i == reset_at % len(ops) and not last:
                self.add(dict(op="reset", n=320))
                tr["abandoned"] = True
                tr["done"] = i + 1
                tr["reset_inside"] = True
                break
            if mid and not last:
                for pos, f in mid:
                    if pos % (len(ops) - 1) == i and f["k"] != "ctrl":
                        before = len(self.prog)
                        self.item(f, inside=-1 - tr["index"])
                        if any(p["op"] in ("in", "out", "ping") for p in self.prog[before:]):
                            tr["foreign_inside"] += 1
        tr["last"] = len(self.prog) - 1
        return tr


# ---------------------------------------------------------------------------------------------- strategies
def foreign_table(in_eps=(1, 4), out_eps=(2, 4), sig_ep=3, outs=True, pings=True, mps=8):
    """Representative other-endpoint items (weights by repetition); one draw selects one."""
    t = []
    for ep in in_eps:
        t += [dict(k="in", ep=ep, ack=1)] * 4 + [dict(k="in", ep=ep, ack=0)]
        for n in (1, 3, mps, mps + 1, 2 * mps, 2 * mps + 3):
            t += [dict(k="feed", ep=ep, n=n, last=1)]
        t += [dict(k="feed", ep=ep, n=2, last=0), dict(k="feed", ep=ep, n=mps, last=0)]
    if sig_ep:
        t += [dict(k="in", ep=sig_ep, ack=1)] * 3 + [dict(k="in", ep=sig_ep, ack=0)]
        t += [dict(k="sig", v=0xBEEF), dict(k="sig", v=0x0102)]
    if outs:
        for ep in out_eps:
            for n in (0, 1, 5, mps, mps):
                t += [dict(k="out", ep=ep, n=n, flip=0)]
            t += [dict(k="out", ep=ep, n=3, flip=1)]
    if pings:
        t += [dict(k="ping", ep=ep) for ep in out_eps]
    t += [dict(k="sof"), dict(k="idle", n=4), dict(k="idle", n=25)]
    return t


def foreign_items(**kw):
    """Transactions/events that do not involve endpoint 0 (one entropy draw each)."""
    return st.sampled_from(foreign_table(**kw))


def standard_requests(addresses=st.integers(0, 127), configs=st.integers(0, 255)):
    """Valid forms of the implemented standard requests against the family-B full device."""
    gd = lambda t, i, l: [0x80, 6, (t << 8) | i, 0, l]
    return st.one_of(
        st.sampled_from([gd(1, 0, 8), gd(1, 0, 18), gd(1, 0, 64), gd(2, 0, 9), gd(2, 0, 255), gd(2, 0, 32),
                         gd(3, 0, 255), gd(3, 1, 255), gd(3, 2, 255), gd(3, 2, 64), gd(3, 2, 70), gd(3, 2, 2), gd(3, 3, 255)]),
        st.sampled_from([gd(6, 0, 10), gd(3, 9, 255), gd(0, 0, 4), gd(0x21, 0, 9)]),                     # absent
        st.just([0x80, 8, 0, 0, 1]),
        st.sampled_from([[0x80, 0, 0, 0, 2], [0x81, 0, 0, 0, 2], [0x82, 0, 0, 0x81, 2]]),
        addresses.map(lambda a: [0x00, 5, a, 0, 0]),
        configs.map(lambda c: [0x00, 9, c, 0, 0]),
        st.sampled_from([0x81, 0x02, 0x84, 0x04, 0x83, 0x00, 0x80, 0x05, 0x8F]).map(lambda e: [0x02, 1, 0, e, 0]),
    )


def unsupported_requests():
    """A few representatives of the must-STALL class (the full space is C10's business)."""
    return st.sampled_from([
        [0x00, 3, 1, 0, 0], [0x01, 11, 0, 0, 0], [0x81, 10, 0, 0, 1], [0x80, 7, 0x0100, 0, 18],
        [0xC0, 1, 0, 0, 4], [0x40, 2, 7, 0, 0], [0x21, 0x22, 3, 0, 0], [0x40, 9, 0, 0, 6], [0xA1, 0x21, 0, 0, 7],
        [0x00, 1, 1, 0, 0], [0x02, 1, 1, 0x81, 0], [0x01, 1, 0, 0, 0],
    ])


# ---------------------------------------------------------------------------------------------- verdict helpers
def _kind(resp):
    if resp[0] == "hs":
        return M.U.PID_NAMES.get(resp[1], "hs")
    if resp[0] == "data":
        return "data" if resp[2] else "zlp"
    return resp[0]


def response_signature(v):
    """Short, case-independent key for a model/response divergence."""
    if v["cls"] != "response":
        return v["cls"]
    t = v["txn"]
    got = _kind(t["resp"])
    exp = "|".join(sorted({_kind(a) for a in t["allowed"]}))
    if t["resp"][0] == "data" and any(a[0] == "data" for a in t["allowed"]):
        a = [a for a in t["allowed"] if a[0] == "data"][0]
        got = "wrong-pid" if a[2] == t["resp"][2] else "wrong-payload"
    if t["kind"] == "sof":
        where = "sof"
    elif t["ep"] == 0:
        where = "ep0-" + t["ctx"].split(" of ")[0].replace(" ", "-").replace("#", "")
    else:
        where = f"{t['kind']}-ep{t['ep']}"
    if "while the device address" in t.get("ctx", ""):
        where = "foreign-address"
    return f"{where}:exp-{exp}:got-{got}"


def pending_request_facts(run, prog):
    """Facts used to name root causes: was a no-data standard request (SET_ADDRESS / SET_CONFIGURATION /
    CLEAR_FEATURE) left pending (SETUP seen, status not yet acknowledged by the host) when a host ACK belonging to
    another endpoint's transaction went by; was any earlier control transfer abandoned."""
    pending = False
    foreign_ack_while_pending = False
    abandoned_before = False
    open_transfer = None
    for t in run.txns:
        if t["kind"] == "setup":
            if open_transfer is not None:
                abandoned_before = True
            open_transfer = t
            info = M.classify_request(tuple(t["req"]), {}, False)
            pending = info["kind"] == "nodata"
        elif t["ep"] == 0:
            if t is run.txns[-1] and run.violation is not None:
                break
            if t["kind"] == "in" and t["ack"] and t["resp"][0] == "data" and not t["resp"][2] and pending:
                pending = False
                open_transfer = None
            elif t["kind"] == "out" and t["resp"] == M.ACK:
                open_transfer = None
            elif t["resp"] == M.STALL:
                open_transfer = None
        elif t["ack"] and pending:
            foreign_ack_while_pending = True
    return dict(foreign_ack_while_pending=foreign_ack_while_pending, abandoned_before=abandoned_before)
