"""Harness + closed-loop link-partner / protocol-layer BFM for LUNA's PacketTransmitter (C39).

What surrounds PacketTransmitter in USB3LinkLayer and is modelled here (only legal behaviour unless named):
  * the link partner's *receiver*: it parses the headers the DUT transmits (reference parser, online), answers every
    intact in-sequence header with LGOOD(seq) and — once it has consumed it — LCRD(next letter); a header that
    arrives corrupted (generated wire noise) is answered, after all earlier LGOODs, with one LBAD and everything is
    ignored until our LRTY has gone out; at link entry it advertises LGOOD(m) then LCRD A,B,C,D;
  * named mismatches ("mischief"): an LGOOD with a number that is not the next one, an LCRD with a wrong letter, a
    stray LRTY, a plain link-down; an LBAD that overtakes the LGOODs still pending for the headers received before
    the corrupted one (case["overtake"] = dict(lbads, ack_delay, corrupt): those LGOODs, with their correct numbers and in order, then arrive AFTER
    the LBAD -- at their own pace, or the first of them aimed at the end of the packet the DUT has in flight); when the DUT raises recovery_required the LTSSM takes the link down in the next
    cycle (enable low), as ltssm.py does, and a new link entry with a fresh advertisement follows;
  * our own HeaderPacketReceiver's LRTY path: lrty_pending rises the cycle after retry_required and falls once the
    LRTY command has been transmitted; the Tx arbiter lets it out only between two packets of the DUT (never inside
    one), during which the DUT's source is not ready;
  * the protocol layer offering headers on `queue` (valid held until ready, header stable);
  * the PHY's ready pattern on `source`.
"""
from collections import deque

from lunaverif.ref import g4_usb3 as R

TYPES = [R.TYPE_TP, R.TYPE_LMP, R.TYPE_ITP, R.TYPE_DATA]


def queue_fields(h):
    """Header fields the protocol layer presents for case entry h = [kind, n, dw0, dw1, dw2, type, hub, df, seqjunk]
    (a DATA header announces a zero-length payload: the data stream stays idle)."""
    typ = TYPES[h[5] % 4]
    return dict(q0=(h[2] & ~0x1F & 0xFFFFFFFF) | typ, q1=h[3] & 0xFFFF if typ == R.TYPE_DATA else h[3], q2=h[4],
                qhub=h[6] & 7, qdf=h[7] & 1, qseq=h[8] & 7)


def make_harness():
    from luna.gateware.usb.usb3.link.transmitter import PacketTransmitter
    from lunaverif.simkit import CycleHarness
    d = PacketTransmitter(buffer_count=4)
    q = d.queue.header
    ins = dict(sv=d.sink.valid, sd=d.sink.data, sc=d.sink.ctrl, enable=d.enable, qvalid=d.queue.valid,
               q0=q.dw0, q1=q.dw1, q2=q.dw2, qseq=q.sequence_number, qhub=q.hub_depth, qdf=q.deferred,
               lrty=d.lrty_pending, sready=d.source.ready)
    outs = dict(valid=d.source.valid, data=d.source.data, ctrl=d.source.ctrl, qready=d.queue.ready,
                retry_req=d.retry_required, retry_rx=d.retry_received, recov=d.recovery_required,
                bringup=d.bringup_complete, credits=d.credits_available, pts=d.packets_to_send)
    return CycleHarness(d, ins, outs, domain="ss")


def cyc(lst, i, default):
    return lst[i % len(lst)] if lst else default


class TxPartner:
    """Driver for CycleHarness.run_driver.  See c39.case_strategy for the case layout."""

    def __init__(self, case, max_idle=80):
        self.case = case
        self.hdrs = case["hdrs"]
        ov = case.get("overtake")
        if not isinstance(ov, dict):
            ov = {}
        self.ov_lbads = ov.get("lbads", [])            # per corrupted header [kind, off, lbad_delay]
        self.ov_ack = ov.get("ack_delay") or None      # slow acknowledger: several LGOODs pending
        self.noise = deque(ov.get("corrupt") or case.get("noise", []))
        self.mischief = sorted([list(m) for m in case.get("mischief", [])], key=lambda m: m[1])
        self.spat = list(case.get("sready", [1])) or [1]
        if not any(self.spat):
            self.spat.append(1)
        # ---- link state
        self.epoch = -1
        self.enable = 0
        self.up_at = 2                    # first link entry
        self.down_at = None
        self.epochs = []                  # dict(u0, u1, adv, adv_word_at)
        # ---- partner
        self.acks = deque()               # (ready_at, cmd, sub, tag)
        self.crds = deque()
        self.misc = deque()
        self.txw = deque()                # words the partner is sending: (valid, data, ctrl, note)
        self.cmd_i = 0
        self.expected = 0
        self.letter = 0
        self.ignoring = False
        self.last_lgood = 0
        self.rx_count = 0                 # headers the partner has looked at (not ignoring) in total
        self.rx_state = None              # None or list of collected words after HPSTART
        self.rx_start = None
        self.partner_seq_error = None
        self.sent_cmds = []               # dict(t, cmd, sub, tag, epoch)
        self.rx_log = []                  # dict(start, end, seq, dl, verdict)
        self.ack_i = self.crd_i = 0
        self.lbad_i = 0                   # corrupted headers seen (indexes case["overtake"])
        self.late = None                  # dict(off, deadline) while LGOODs overtaken by an LBAD are waiting to be aimed
        self.gap0_once = False
        self.crd_gate = deque()           # parallel to crds: [serial of the header, LGOODs that must have gone out first]
        self.good_serial = 0              # intact in-sequence headers seen
        self.acks_sent = 0                # their LGOODs sent
        # ---- our receiver's LRTY path
        self.lrty = 0
        self.lrty_go = None
        self.lrty_phase = 0
        self.lrty_i = 0
        self.lrty_log = []                # [rise, fall]
        # ---- protocol layer
        self.q_i = 0
        self.q_valid = 0
        self.q_offer_at = 0
        self.q_wait_lbad = None           # offset while waiting for an LBAD announcement
        self.q_wait_since = 0
        self.lbad_word_at = None
        self.accepts = []                 # (cycle, index into hdrs)
        # ---- bookkeeping
        self.log = []
        self.last_in = None
        self.quiet = 0
        self.max_idle = max_idle
        self._arm_queue(0)

    # ------------------------------------------------------------------ protocol layer
    def _arm_queue(self, t):
        if self.q_i >= len(self.hdrs):
            return
        kind, n = self.hdrs[self.q_i][0], self.hdrs[self.q_i][1]
        if kind == "lbad":
            self.q_wait_lbad = n
            self.q_wait_since = t
            self.q_offer_at = None
            if self.lbad_word_at is not None and self.lbad_word_at + n >= t:
                self.q_offer_at = self.lbad_word_at + n
                self.q_wait_lbad = None
        else:
            self.q_wait_lbad = None
            self.q_offer_at = t + n

    # ------------------------------------------------------------------ partner: receive side
    def _partner_word(self, t, data, ctrl):
        """A word of the DUT's transmission accepted in cycle t."""
        if not self.enable:
            self.rx_state = None                      # the partner's receiver starts afresh at every link entry
            return
        if self.rx_state is None:
            if (data, ctrl) == R.HPSTART:
                self.rx_state = []
                self.rx_start = t
            return
        self.rx_state.append((data, ctrl))
        if len(self.rx_state) < 4:
            return
        words, self.rx_state = self.rx_state, None
        f = R.header_check(*[w[0] for w in words])
        rec = dict(f, start=self.rx_start, end=t, dl=f["delayed"], epoch=self.epoch)
        self.rx_log.append(rec)
        if not self.enable:
            rec["verdict"] = "link-down"
            return
        if self.ignoring:
            rec["verdict"] = "ignored"
            return
        self.rx_count += 1
        corrupt = self.noise.popleft() if self.noise else 0
        if not (f["crc16_ok"] and f["crc5_ok"]):
            corrupt = 1                               # the DUT itself sent a header with a bad CRC
        a = cyc(self.ov_ack or self.case.get("ack_delay", []), self.ack_i, 2)
        self.ack_i += 1
        if corrupt:
            rec["verdict"] = "bad"
            self.ignoring = True
            ov = cyc(self.ov_lbads, self.lbad_i, None)
            self.lbad_i += 1
            if ov and ov[0] in ("free", "aim") and self.acks and all(e[3] == "ack" for e in self.acks):
                # ordering mismatch: the LBAD is sent before the LGOODs that are still pending for earlier headers
                # (the credit of such a header still follows its LGOOD: a buffer is freed after the acknowledgement)
                for g in self.crd_gate:
                    if g[0] > self.good_serial - len(self.acks):
                        g[1] = g[0]
                self.acks.appendleft((t + 1 + ov[2], R.LBAD, 0, "lbad-overtaking"))
                self.late = dict(off=ov[1] if ov[0] == "aim" else None)
            else:
                self.acks.append((t + 1 + a, R.LBAD, 0, "lbad"))
        elif f["seq"] == self.expected:
            rec["verdict"] = "good"
            self.expected = (self.expected + 1) & 7
            self.acks.append((t + 1 + a, R.LGOOD, f["seq"], "ack"))
            c = cyc(self.case.get("crd_delay", []), self.crd_i, 3)
            self.crd_i += 1
            self.crds.append((t + 1 + a + c, R.LCRD, self.letter, "credit"))
            self.good_serial += 1
            self.crd_gate.append([self.good_serial, 0])
            self.letter = (self.letter + 1) & 3
        else:
            rec["verdict"] = "seq-error"
            if self.partner_seq_error is None:
                self.partner_seq_error = rec
        # mischief keyed on the number of headers the partner has examined
        while self.mischief and self.mischief[0][1] <= self.rx_count:
            kind, _, k = self.mischief.pop(0)
            self._mischief(t, kind, k)

    def _mischief(self, t, kind, k):
        if kind == "lgood":
            self.misc.append((t + 2, R.LGOOD, None, ("bad-lgood", 1 + k % 7)))
        elif kind == "lcrd":
            self.misc.append((t + 2, R.LCRD, None, ("bad-lcrd", 1 + k % 3)))
        elif kind == "lrty":
            self.misc.append((t + 2, R.LRTY, 0, "stray-lrty"))
        elif kind == "down":
            self.down_at = t + 2 + k % 9

    # ------------------------------------------------------------------ partner: transmit side
    def _partner_send(self, t):
        if self.txw:
            return
        best = None
        for q in (self.acks, self.misc, self.crds):
            if q is self.crds and q and self.crd_gate[0][1] > self.acks_sent:
                continue
            if q and q[0][0] <= t and (best is None or q[0][0] < best[0][0]):
                best = q
        if best is None:
            return
        _, cmd, sub, tag = best.popleft()
        if best is self.crds:
            self.crd_gate.popleft()
        elif tag == "ack":
            self.acks_sent += 1
        if isinstance(tag, tuple):
            if tag[0] == "bad-lgood":
                sub = (self.last_lgood + 1 + tag[1]) & 7      # never the number the DUT expects next
            else:
                sub = ((self.crds[0][2] if self.crds else self.letter) + tag[1]) & 3
            tag = tag[0]
        g = cyc(self.case.get("cmd_gap", []), self.cmd_i, 0)
        self.cmd_i += 1
        if self.gap0_once and best is self.acks:
            g, self.gap0_once = 0, False
        if tag == "lbad-overtaking" and self.late is not None:
            self.late["deadline"] = t + 16
        if cmd == R.LBAD:
            g = max(abs(g), 3) if g >= 0 else -max(abs(g), 3)
        for _ in range(abs(g)):
            self.txw.append((1, 0, 0, None) if g >= 0 else (0, 0x5A5A0000, 0, None))
        n = abs(g)
        if cmd == R.LBAD:
            self.lbad_word_at = t + n + 1
            if self.q_wait_lbad is not None:
                self.q_offer_at = max(t, self.lbad_word_at + self.q_wait_lbad)
                self.q_wait_lbad = None
        w0, w1 = R.lc_words(cmd, sub)
        self.txw.append((1, w0[0], w0[1], None))
        self.txw.append((1, w1[0], w1[1], dict(cmd=cmd, sub=sub, tag=tag)))
        if cmd == R.LGOOD and tag == "ack":
            self.last_lgood = sub

    def _aim_late_lgood(self, t):
        """The first LGOOD an LBAD has overtaken: its command word (second word) is aimed at <last word of the header
        the DUT has in flight, or starts next> + off; released as it comes when not aimed / nothing is sent in time."""
        la = self.late
        if la is None or "deadline" not in la or self.txw:
            return                                    # the LBAD itself has not gone out yet
        if la["off"] is None or not self.acks or self.acks[0][3] != "ack" or t > la["deadline"]:
            self.late = None
            return
        head = self.acks[0]
        if self.rx_state is None:                     # no header of the DUT in flight (as of cycle t-1): hold the LGOOD
            self.acks[0] = (t + 1,) + head[1:]
            return
        need = 5 - (1 + len(self.rx_state))           # words of that header still to be accepted from cycle t on
        end = t - 1
        while need > 0:
            end += 1
            need -= 1 if self.spat[end % len(self.spat)] else 0
        self.acks[0] = (max(t, end - 1 + la["off"]),) + head[1:]
        self.gap0_once = True
        self.late = None

    # ------------------------------------------------------------------ link entry / exit
    def _link_up(self, t):
        self.epoch += 1
        self.enable = 1
        advs = self.case.get("adv", [7])
        m = cyc(advs, self.epoch, 7) & 7
        br = self.case.get("bring", [2])
        t0 = t + 1 + cyc(br, 5 * self.epoch, 2)
        self.acks.append((t0, R.LGOOD, m, "adv"))
        tc = t0 + 2
        for k in range(4):
            tc += cyc(br, 5 * self.epoch + 1 + k, 0)
            self.crds.append((tc, R.LCRD, k, "adv-credit"))
            self.crd_gate.append([0, 0])
        self.expected = (m + 1) & 7
        self.last_lgood = m
        self.letter = 0
        self.ignoring = False
        self.epochs.append(dict(u0=t, u1=None, adv=m))

    def _link_down(self, t):
        self.enable = 0
        self.epochs[-1]["u1"] = t
        self.acks.clear()
        self.crds.clear()
        self.crd_gate.clear()
        self.acks_sent = self.good_serial
        self.misc.clear()
        self.txw.clear()
        self.rx_state = None
        self.ignoring = False
        self.late = None
        self.gap0_once = False
        self.down_at = None
        self.lrty_go = None
        self.lrty_phase = 0
        if self.lrty:
            self.lrty = 0
            self.lrty_log[-1][1] = t
        dl = self.case.get("down_len", [20])
        self.up_at = t + cyc(dl, self.epoch, 20)

    # ------------------------------------------------------------------ driver entry point
    def step(self, t, prev):
        li = self.last_in
        if prev is not None:
            if prev.valid and li["sready"]:
                self._partner_word(t - 1, prev.data, prev.ctrl)
            if prev.qready and li["qvalid"]:
                self.accepts.append((t - 1, self.q_i))
                self.q_i += 1
                self.q_valid = 0
                self._arm_queue(t)
            if prev.retry_req and self.enable:
                if not self.lrty:
                    self.lrty = 1
                    self.lrty_log.append([t, None])
                    self.lrty_go = t + 2 + cyc(self.case.get("lrty_extra", []), self.lrty_i, 0)
                    self.lrty_i += 1
            if prev.recov and self.enable and self.down_at is None:
                self.down_at = t                      # LTSSM leaves U0 in the next cycle
        # ---- link schedule
        if self.enable and self.down_at is not None and t >= self.down_at:
            self._link_down(t)
        elif not self.enable and self.up_at is not None and t >= self.up_at:
            self.up_at = None
            self._link_up(t)
        # ---- our LRTY going out (between two packets of the DUT)
        force_stall = False
        if self.lrty:
            if self.lrty_phase == 0:
                if t >= self.lrty_go and (prev is None or not prev.valid):
                    self.lrty_phase = 1
                    force_stall = True
            elif self.lrty_phase == 1:
                self.lrty_phase = 2
                force_stall = True
            else:
                self.lrty = 0
                self.lrty_phase = 0
                self.lrty_log[-1][1] = t
                self.ignoring = False
        # ---- partner transmit
        if self.enable:
            self._aim_late_lgood(t)
            self._partner_send(t)
        word = (1, 0, 0, None)
        if self.txw:
            word = self.txw.popleft()
            if word[3] is not None:
                self.sent_cmds.append(dict(word[3], t=t, epoch=self.epoch))
        elif not self.enable:
            word = (1, 0xBCBCBCBC, 0xF, None) if t % 4 == 0 else (1, 0x4A4A4A4A, 0, None)
        # ---- protocol layer
        if not self.q_valid and self.q_i < len(self.hdrs):
            if self.q_offer_at is None and t - self.q_wait_since > 80:
                self.q_offer_at = t                   # no LBAD came: offer anyway
                self.q_wait_lbad = None
            if self.q_offer_at is not None and t >= self.q_offer_at:
                self.q_valid = 1
        upd = dict(sv=word[0], sd=word[1], sc=word[2], enable=self.enable, lrty=self.lrty,
                   sready=0 if force_stall else self.spat[t % len(self.spat)], qvalid=self.q_valid)
        if self.q_valid:
            upd.update(queue_fields(self.hdrs[self.q_i]))
        self.log.append(upd)
        self.last_in = upd
        # ---- termination
        busy = (prev is not None and (prev.valid or prev.pts)) or self.txw or self.acks or self.crds or self.misc \
            or self.lrty or not self.enable or self.down_at is not None
        done_offering = self.q_i >= len(self.hdrs)
        if not busy and (done_offering or (self.q_valid and prev is not None and not prev.qready)):
            self.quiet += 1
        else:
            self.quiet = 0
        self.finished = done_offering and self.quiet >= 25
        if self.quiet >= (25 if done_offering else self.max_idle):
            return None
        return upd
