"""Endpoint-level USB host BFM (agent g8): plays the role of ``USBDevice`` for ONE endpoint.

The harness drives an endpoint's ``EndpointInterface`` (luna/gateware/usb/usb2/endpoint.py) exactly the way
``device.py`` does through its token detector, data receiver, handshake detector, inter-packet timers and data
packet generator.  The relative timing below was read from packet.py / device.py and measured against the real
blocks (``python -m lunaverif.bfm.g8_ephost`` re-runs that cross-check).  With T = first cycle in which the PHY's
``rx_active`` is low after a packet and d = the inter-packet "tx allowed" delay of the timer table in use
(1 cycle HS@60 MHz, 2 cycles FS@12 MHz, 10 cycles FS@60 MHz):

* token to our address          pid/endpoint/is_* change and ``new_token`` strobes in T+1,
                                ``ready_for_response`` strobes in T+1+d (every token, whatever its PID);
* token to a foreign address    ``pid`` := 0 in T+1 (endpoint keeps its value), no strobes;
* SOF                           ``new_frame`` strobes and ``frame`` changes in T+1, pid/endpoint untouched;
* data packet PID b0 .. bn-1    (bytes after the PID = payload + 2 CRC bytes; byte i presented in cycle c_i)
                                ``rx_pid_toggle`` := PID bit 3 in c_PID+1; ``rx.valid`` high from c_1+1 to T
                                inclusive; ``rx.next`` strobes in c_i (i >= 2) with ``rx.payload`` = b_(i-2);
                                ``rx_complete`` (CRC good) or ``rx_invalid`` (CRC bad) strobes in T+1;
                                ``rx_ready_for_response`` strobes in T+1+d, only after a good CRC (T+2+d when the
                                device has a control endpoint and the payload is <= 8 bytes: the setup decoder
                                restarts the shared timer one cycle late);
                                fewer than two bytes after the PID: nothing but the toggle;
* host handshake                ``handshakes_in.ack`` strobes in T+1;
* transmit path                 the USBDataPacketGenerator keeps ``tx.ready`` low while idle and while it sends
                                the PID (>= 1 cycle), latches ``tx_pid_toggle`` in the cycle it first sees
                                valid&first (or valid&last without first = ZLP), then passes the PHY's
                                ``tx_ready`` through until ready & (last | ~valid), and keeps it low during
                                the two CRC bytes.  ``tx.ready`` is broadcast to all endpoints, so it also
                                pulses while another endpoint transmits.

Everything the host does is written as one coroutine (``_script``) advanced once per cycle; it reacts to DUT
outputs of *earlier* cycles only.  Observations (packets, handshake requests) are logged with cycle stamps and
judged afterwards by the property modules.
"""

from lunaverif.ref.crc import usb2_crc16

PID_OUT, PID_IN, PID_SOF, PID_SETUP, PID_PING = 0x1, 0x9, 0x5, 0xD, 0x4
DATA_PID = {0: 0x3, 1: 0xB, 2: 0x7, 3: 0xF}        # DATA0, DATA1, DATA2, MDATA
SPEED_HIGH, SPEED_FULL = 0, 1

#: response delays (cycles between new_token / rx_complete and the matching ready strobe)
D_HS, D_FS12, D_FS60 = 1, 2, 10
DELAYS = (D_HS, D_FS12, D_FS60)

_STROBES = ("tk_new", "tk_rdy", "tk_newframe", "rx_next", "rx_complete", "rx_invalid", "rx_rdy", "hs_ack", "hs_nak")


def interface_ports(iface):
    """(ins, outs) dictionaries for CycleHarness covering one EndpointInterface."""
    tk = iface.tokenizer
    ins = dict(
        tk_pid=tk.pid, tk_ep=tk.endpoint, tk_new=tk.new_token, tk_rdy=tk.ready_for_response,
        tk_in=tk.is_in, tk_out=tk.is_out, tk_setup=tk.is_setup, tk_ping=tk.is_ping,
        tk_frame=tk.frame, tk_newframe=tk.new_frame,
        rx_valid=iface.rx.valid, rx_next=iface.rx.next, rx_data=iface.rx.payload,
        rx_complete=iface.rx_complete, rx_invalid=iface.rx_invalid, rx_rdy=iface.rx_ready_for_response,
        rx_tog=iface.rx_pid_toggle,
        hs_ack=iface.handshakes_in.ack, hs_nak=iface.handshakes_in.nak,
        tx_ready=iface.tx.ready, speed=iface.speed,
    )
    outs = dict(
        tx_valid=iface.tx.valid, tx_first=iface.tx.first, tx_last=iface.tx.last, tx_data=iface.tx.payload,
        tx_pid=iface.tx_pid_toggle,
        ho_ack=iface.handshakes_out.ack, ho_nak=iface.handshakes_out.nak, ho_stall=iface.handshakes_out.stall,
    )
    return ins, outs


class TxModel:
    """Cycle model of USBDataPacketGenerator + PHY as seen from an endpoint's tx stream.

    ``ready(t)`` is the value of tx.ready for cycle t; ``observe(t, valid, first, last, data, pid)`` feeds the
    DUT's outputs of cycle t (call it for every cycle, in order, after ready(t))."""

    IDLE, PID, PAYLOAD, CRC1, CRC2 = range(5)

    def __init__(self, phy, pid_wait=1):
        self.phy = list(phy) or [1]
        if 1 not in self.phy:
            self.phy.append(1)
        self.pid_wait = max(1, pid_wait)
        self.state = self.IDLE
        self.cnt = 0
        self.packets = []          # finished + in-flight packets
        self.cur = None
        self.foreign = 0           # cycles during which another endpoint is transmitting (ready passes through)
        self.accepts = []          # (cycle, byte) of every accepted payload byte
        self._ready = 0

    def phy_bit(self, t):
        return self.phy[t % len(self.phy)]

    @property
    def idle(self):
        return self.state == self.IDLE

    def ready(self, t):
        if self.state == self.PAYLOAD:
            r = self.phy_bit(t)
        elif self.state == self.IDLE and self.foreign > 0:
            r = self.phy_bit(t)
        else:
            r = 0
        self._ready = r
        return r

    def observe(self, t, valid, first, last, data, pid):
        st = self.state
        if self.foreign > 0:
            self.foreign -= 1
        if st == self.IDLE:
            if valid and first:
                self.cur = dict(start=t, pid=pid, data=[], zlp=False, aborted=False, end=None, last_cycle=None)
                self.packets.append(self.cur)
                self.state, self.cnt = self.PID, self.pid_wait
            elif valid and last:
                self.cur = dict(start=t, pid=pid, data=[], zlp=True, aborted=False, end=None, last_cycle=t)
                self.packets.append(self.cur)
                self.state, self.cnt = self.PID, self.pid_wait
        elif st == self.PID:
            self.cnt -= 1
            if self.cnt <= 0:
                self.state = self.CRC1 if self.cur["zlp"] else self.PAYLOAD
        elif st == self.PAYLOAD:
            if self._ready:
                if valid:
                    self.cur["data"].append(data)
                    self.accepts.append((t, data))
                    if first and len(self.cur["data"]) > 1:
                        self.cur["late_first"] = True
                    if last:
                        self.cur["last_cycle"] = t
                        self.state = self.CRC1
                else:
                    self.cur["aborted"] = True          # valid dropped before last: packet cut short
                    self.state = self.CRC1
        elif st == self.CRC1:
            if self.phy_bit(t):
                self.state = self.CRC2
        elif st == self.CRC2:
            if self.phy_bit(t):
                self.cur["end"] = t
                self.cur = None
                self.state = self.IDLE


class EpHost:
    """Closed-loop driver for CycleHarness.run_driver.

    events: list of dicts (JSON-able), see ``_do`` for the kinds.  ``side(t, prev, host) -> dict`` supplies the
    property-specific inputs of the DUT (stream data, consumer ready, ...)."""

    RESP_WAIT = 4     # cycles after the ready strobe within which a DUT must have started its response

    def __init__(self, events, *, d, phy=(1,), pid_wait=1, side=None, tail=16, tok_len=3, more=None, ctrl=False):
        assert d >= 1
        self.d = d
        # device has a control endpoint (every real device does): its USBSetupDecoder deserialises every good data
        # packet of <= 8 payload bytes and restarts the *shared* inter-packet timer one cycle after the receiver
        # did (registered new_packet strobe), so rx_ready_for_response comes one cycle later for such packets
        self.ctrl = ctrl
        self.events = events
        self.side = side
        self.more = more           # optional callback(host) -> next event | None, used after `events` (drain phases)
        self.tail = tail
        self.tok_len = tok_len
        self.tx = TxModel(phy, pid_wait)
        self.t = 0
        self.prev = None
        self.levels = dict(tk_pid=0, tk_ep=0, tk_in=0, tk_out=0, tk_setup=0, tk_ping=0, tk_frame=0,
                           rx_valid=0, rx_tog=0, speed=SPEED_HIGH if d == D_HS else SPEED_FULL)
        self.sched = {}            # cycle -> dict of level updates
        self.pulses = {}           # cycle -> set of strobe names
        self.rxdata = {}           # cycle -> payload value presented with rx_next
        self.hs_out = []           # (cycle, 'ack'|'nak'|'stall') requests seen from the DUT
        self.log = []              # transaction records
        self.done_at = None
        self._gen = self._script()

    # ---- scheduling primitives ---------------------------------------------------------------------------
    def at(self, c, **levels):
        self.sched.setdefault(c, {}).update(levels)

    def pulse(self, c, name):
        self.pulses.setdefault(c, set()).add(name)

    def wait(self, n):
        for _ in range(max(0, n)):
            yield

    def token(self, pid, ep, foreign=False):
        """A token packet whose last active cycle was t-1 (T = current cycle).  Returns T."""
        T = self.t
        if foreign:
            self.at(T + 1, tk_pid=0, tk_in=0, tk_out=0, tk_setup=0, tk_ping=0)
            return T
        self.at(T + 1, tk_pid=pid, tk_ep=ep, tk_in=int(pid == PID_IN), tk_out=int(pid == PID_OUT),
                tk_setup=int(pid == PID_SETUP), tk_ping=int(pid == PID_PING))
        self.pulse(T + 1, "tk_new")
        self.pulse(T + 1 + self.d, "tk_rdy")
        return T

    def data_packet(self, pid4, body, *, lead=1, period=1, jitter=(), trail=0):
        """Schedule the endpoint-side image of a host data packet that starts (rx_active rises) in the current
        cycle.  body = bytes after the PID (payload + CRC, possibly corrupted/truncated).  Returns
        (T, crc_ok, first_write_cycle) where crc_ok is None when the receiver reports nothing at all."""
        A = self.t
        c = A + max(1, lead)                       # PID byte
        self.at(c + 1, rx_tog=(pid4 >> 3) & 1)
        cyc = []
        for i in range(len(body)):
            c += max(1, period + (jitter[i % len(jitter)] if jitter else 0))
            cyc.append(c)
        T = c + 1 + max(0, trail)
        if len(body) < 2:
            return T, None
        self.at(cyc[1] + 1, rx_valid=1)
        for i in range(2, len(body)):
            self.pulse(cyc[i], "rx_next")
            self.rxdata[cyc[i]] = body[i - 2]
        self.at(T + 1, rx_valid=0)
        payload, crc = body[:-2], body[-2] | (body[-1] << 8)
        ok = usb2_crc16(bytes(payload)) == crc
        self.pulse(T + 1, "rx_complete" if ok else "rx_invalid")
        if ok:
            self.pulse(T + 1 + self.rx_delay(len(payload)), "rx_rdy")
        return T, ok

    def rx_delay(self, payload_len):
        return self.d + (1 if self.ctrl and payload_len <= 8 else 0)

    # ---- helpers for the script ----------------------------------------------------------------------------
    def _hs_since(self, c0):
        return [(c, k) for c, k in self.hs_out if c >= c0]

    def _wait_until(self, c):
        while self.t < c:
            yield

    def _wait_tx_idle(self, limit=20000):
        n = 0
        while not self.tx.idle:
            n += 1
            if n > limit:
                raise RuntimeError("g8_ephost: transmitter model never returned to idle")
            yield

    # ---- the host script -----------------------------------------------------------------------------------
    def _script(self):
        yield from self.wait(2)
        i = -1
        for i, ev in enumerate(self.events):
            yield from self._do(i, ev)
        while self.more is not None:
            ev = self.more(self)
            if ev is None:
                break
            i += 1
            yield from self._do(i, ev)
        self.done_at = self.t

    def _do(self, idx, ev):
        k = ev["k"]
        yield from self.wait(ev.get("gap", 2))
        rec = dict(i=idx, k=k, ep=ev.get("ep"), t0=self.t, np0=len(self.tx.packets), nh0=len(self.hs_out))
        self.log.append(rec)
        if k == "idle":
            yield from self.wait(ev.get("n", 1))

        elif k == "sof":
            yield from self.wait(self.tok_len)
            T = self.t
            self.at(T + 1, tk_frame=ev["frame"] & 0x7FF)
            self.pulse(T + 1, "tk_newframe")
            rec.update(T=T, t_frame=T + 1, frame=ev["frame"] & 0x7FF)
            yield from self.wait(2)

        elif k == "foreign":
            # a transaction with another device on the bus: token to a foreign address, optional OUT data
            yield from self.wait(self.tok_len)
            T = self.token(ev.get("pid", PID_IN), 0, foreign=True)
            rec.update(T=T)
            yield from self.wait(2 + self.d)
            if ev.get("data") is not None:
                yield from self._send_data(rec, ev)

        elif k == "in":
            # IN transaction; 'mine' tells the host whether the DUT is expected to answer on its tx stream
            yield from self.wait(self.tok_len)
            T = self.token(PID_IN, ev["ep"])
            t_rdy = T + 1 + self.d
            rec.update(T=T, t_rdy=t_rdy, hs=ev.get("hs", "ack"))
            if not ev.get("mine", True):
                # another endpoint answers: tx.ready pulses while it transmits, then the host may ACK
                yield from self._wait_until(t_rdy + 2)
                n = ev.get("other_len", 0)
                if n:
                    self.tx.foreign = n
                    yield from self.wait(n + 3)
                    if ev.get("hs", "ack") == "ack":
                        yield from self.wait(ev.get("ack_delay", 3))
                        self.pulse(self.t + 1, "hs_ack")
                        rec["t_ack"] = self.t + 1
                        yield from self.wait(2)
                return
            yield from self._wait_until(t_rdy + self.RESP_WAIT)
            pk = self.tx.packets[rec["np0"]:]
            if pk:
                yield from self._wait_tx_idle()
                rec["resp"] = "data"
                hs = ev.get("hs", "ack")
                if hs == "ack":
                    yield from self.wait(ev.get("ack_delay", 3))
                    self.pulse(self.t + 1, "hs_ack")
                    rec["t_ack"] = self.t + 1
                    yield from self.wait(2)
                else:
                    yield from self.wait(ev.get("timeout", 4))
            else:
                hs = self._hs_since(T + 1)
                rec["resp"] = hs[0][1] if hs else "none"

        elif k == "out":
            # OUT / SETUP transaction: token, then a data packet
            yield from self.wait(self.tok_len)
            T0 = self.token(ev.get("pid", PID_OUT), ev["ep"])
            rec.update(Ttok=T0)
            yield from self.wait(max(2, ev.get("tok2data", 3)))
            yield from self._send_data(rec, ev)

        elif k == "ping":
            yield from self.wait(self.tok_len)
            T = self.token(PID_PING, ev["ep"])
            rec.update(T=T, t_rdy=T + 1 + self.d)
            yield from self._wait_until(T + 1 + self.d + 3)
        else:
            raise ValueError(k)
        rec["t1"] = self.t

    def _send_data(self, rec, ev):
        body = list(ev["data"])
        T, ok = self.data_packet(DATA_PID[ev.get("dpid", 0)], body, lead=ev.get("lead", 1),
                                 period=ev.get("period", 1), jitter=ev.get("jitter", ()), trail=ev.get("trail", 0))
        rec.update(A=self.t, T=T, crc_ok=ok, t_complete=T + 1,
                   t_rdy=(T + 1 + self.rx_delay(len(body) - 2)) if ok else None)
        yield from self._wait_until(T + 2 + self.d + 3)

    # ---- CycleHarness driver interface -----------------------------------------------------------------------
    def step(self, t, prev):
        self.t = t
        self.prev = prev
        if prev is not None:
            # DUT outputs of cycle t-1
            self.tx.observe(t - 1, prev.tx_valid, prev.tx_first, prev.tx_last, prev.tx_data, prev.tx_pid)
            if prev.ho_ack:
                self.hs_out.append((t - 1, "ack"))
            if prev.ho_nak:
                self.hs_out.append((t - 1, "nak"))
            if prev.ho_stall:
                self.hs_out.append((t - 1, "stall"))
        if self.done_at is None:
            try:
                next(self._gen)
            except StopIteration:
                if self.done_at is None:
                    self.done_at = t
        elif t >= self.done_at + self.tail and self.tx.idle:
            return None
        lv = self.levels
        upd = self.sched.pop(t, None)
        if upd:
            lv.update(upd)
        vec = dict(lv)
        ps = self.pulses.pop(t, ())
        for n in _STROBES:
            vec[n] = 1 if n in ps else 0
        vec["rx_data"] = self.rxdata.pop(t, 0)
        vec["tx_ready"] = self.tx.ready(t)
        if self.side is not None:
            vec.update(self.side(t, prev, self))
        return vec


# ---- small helpers shared by the property modules -------------------------------------------------------------

def crc_body(payload, corrupt=None):
    """payload + CRC16 as a list of ints; corrupt = None | ('flip', bitpos) | ('crc', xor16) | ('trunc', n)."""
    p = list(payload)
    c = usb2_crc16(bytes(p))
    body = p + [c & 0xFF, c >> 8]
    if corrupt is None:
        return body
    kind, arg = corrupt
    if kind == "flip":
        bit = arg % (8 * len(body))
        body[bit // 8] ^= 1 << (bit % 8)
    elif kind == "crc":
        x = (arg & 0xFFFF) or 1
        body[-2] ^= x & 0xFF
        body[-1] ^= x >> 8
    elif kind == "trunc":
        n = 1 + arg % max(1, len(body) - 2) if len(body) > 2 else 0
        body = body[:len(body) - n]
    return body


class Segments:
    """Piecewise-constant waveform from [(value, duration), ...] used cyclically: value_at(t)."""

    def __init__(self, segs, default=0):
        self.vals = []
        for v, n in segs:
            self.vals += [v] * max(1, n)
        if not self.vals:
            self.vals = [default]

    def at(self, t):
        return self.vals[t % len(self.vals)]


# ---- self-test against the real device plumbing -------------------------------------------------------------------

def _crosscheck():            # pragma: no cover - development aid
    """Render a fixed transaction list both through the real USBTokenDetector / USBDataPacketReceiver /
    USBHandshakeDetector / timers and through EpHost, and compare the interface-side waveforms."""
    from amaranth import Elaboratable, Module, Signal
    from luna.gateware.interface.utmi import UTMIInterface
    from luna.gateware.usb.usb2.packet import (USBTokenDetector, USBDataPacketReceiver, USBHandshakeDetector,
                                                USBDataPacketCRC, USBInterpacketTimer, DataCRCInterface)
    from lunaverif.simkit import CycleHarness
    from lunaverif.ref import usb2 as R

    class Wrap(Elaboratable):
        def __init__(self, clk, fs_only, speed):
            self.utmi = UTMIInterface()
            self.clk, self.fs_only, self.speed = clk, fs_only, speed
            self.td = USBTokenDetector(utmi=self.utmi, domain_clock=clk, fs_only=fs_only)
            self.rx = USBDataPacketReceiver(utmi=self.utmi)
            self.hd = USBHandshakeDetector(utmi=self.utmi)

        def elaborate(self, p):
            m = Module()
            m.submodules.td, m.submodules.rx, m.submodules.hd = self.td, self.rx, self.hd
            m.submodules.crc = crc = USBDataPacketCRC()
            m.submodules.timer = timer = USBInterpacketTimer(domain_clock=self.clk, fs_only=self.fs_only)
            crc.add_interface(self.rx.data_crc)
            crc.add_interface(DataCRCInterface())
            timer.add_interface(self.rx.timer)
            m.d.comb += [crc.rx_data.eq(self.utmi.rx_data), crc.rx_valid.eq(self.utmi.rx_valid),
                         self.td.speed.eq(self.speed), timer.speed.eq(self.speed), self.td.address.eq(0)]
            return m

    bad = 0
    for clk, fs_only, speed, d in ((12e6, True, 1, D_FS12), (60e6, False, 1, D_FS60), (60e6, False, 0, D_HS)):
        w = Wrap(clk, fs_only, speed)
        u, ti = w.utmi, w.td.interface
        h = CycleHarness(w, ins=dict(rx_active=u.rx_active, rx_valid=u.rx_valid, rx_data=u.rx_data),
                         outs=dict(tk_new=ti.new_token, tk_rdy=ti.ready_for_response, tk_pid=ti.pid, tk_ep=ti.endpoint,
                                   tk_in=ti.is_in, tk_out=ti.is_out, tk_newframe=ti.new_frame, tk_frame=ti.frame,
                                   rx_valid=w.rx.stream.valid, rx_next=w.rx.stream.next, rx_data=w.rx.stream.payload,
                                   rx_complete=w.rx.packet_complete, rx_invalid=w.rx.crc_mismatch,
                                   rx_rdy=w.rx.ready_for_response, rx_tog=w.rx.active_pid[3], hs_ack=w.hd.detected.ack),
                         domain="usb")
        # one OUT transaction with gaps, a corrupted one, a ZLP, an SOF, a foreign token, an ACK
        body1 = crc_body([1, 2, 3, 4, 5])
        body2 = crc_body([7, 8, 9], ("flip", 3))
        body3 = crc_body([])
        script = [dict(rx_active=0, rx_valid=0, rx_data=0)] * 40
        host = EpHost([], d=d)
        ref = {}

        def utmi_packet(bytes_, lead, period, trail):
            script.append(dict(rx_active=1, rx_valid=0, rx_data=0))
            for _ in range(lead - 1):
                script.append(dict(rx_active=1, rx_valid=0, rx_data=0))
            for i, b in enumerate(bytes_):
                if i:
                    for _ in range(period - 1):
                        script.append(dict(rx_active=1, rx_valid=0, rx_data=0x55))
                script.append(dict(rx_active=1, rx_valid=1, rx_data=b))
            for _ in range(trail):
                script.append(dict(rx_active=1, rx_valid=0, rx_data=0x55))
            T = len(script)
            script.extend([dict(rx_active=0, rx_valid=0, rx_data=0)] * 30)
            return T

        def expect_token(pid, ep, foreign=False):
            host.t = utmi_packet(R.token(pid, 0x33 if foreign else 0, ep), 1, 1, 0)
            host.token(pid, ep, foreign=foreign)

        def expect_data(dpid, body, lead, period, trail):
            host.t = len(script)
            T, ok = host.data_packet(DATA_PID[dpid], body, lead=lead, period=period, trail=trail)
            T2 = utmi_packet([R.pid_byte(DATA_PID[dpid])] + body, lead, period, trail)
            assert T == T2, (T, T2)

        expect_token(PID_OUT, 5)
        expect_data(1, body1, 2, 3, 1)
        expect_token(PID_OUT, 2)
        expect_data(0, body2, 1, 1, 0)
        expect_token(PID_IN, 7)
        host.t = utmi_packet(R.handshake(R.PID_ACK), 1, 1, 0)
        host.pulse(host.t + 1, "hs_ack")
        expect_token(PID_OUT, 2)
        expect_data(0, body3, 1, 2, 0)
        host.t = utmi_packet(R.sof(0x2A5), 1, 1, 0)
        host.at(host.t + 1, tk_frame=0x2A5)
        host.pulse(host.t + 1, "tk_newframe")
        expect_token(PID_IN, 1, foreign=True)
        expect_data(1, crc_body([0xAA]), 1, 1, 2)
        tr = h.run_script(script)
        lv = dict(host.levels)
        for t in range(41, len(script)):
            lv.update(host.sched.get(t, {}))
            exp = dict(lv)
            for n in _STROBES:
                exp[n] = int(n in host.pulses.get(t, ()))
            exp["rx_data"] = host.rxdata.get(t, 0)
            for n in tr[t]._fields:
                g = getattr(tr[t], n)
                if g != exp[n]:
                    print(f"d={d} cycle {t}: {n} real={g} bfm={exp[n]}")
                    bad += 1
    print("crosscheck:", "OK" if not bad else f"{bad} mismatches")
    return bad


if __name__ == "__main__":
    import sys
    sys.exit(1 if _crosscheck() else 0)
