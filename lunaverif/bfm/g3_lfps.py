"""Event-list harness for long-timescale blocks (g3, used by C42).

The stimulus is a list of (input values, number of cycles) segments applied with ``tick().repeat(n)``; outputs are
recorded only when they change (a background sampler woken by ``ctx.changed``), stamped with a free-running cycle
counter that lives in a wrapper next to the DUT.  One elaborated simulator is reused for every case.

Cycle numbering: the counter reads c during cycle c (c ticks after reset).  Inputs applied "in cycle c" are what
the DUT's flip-flops capture at the edge ending cycle c; an output change logged with stamp c means the output has
its new value during cycle c.
"""

import warnings

from amaranth import Elaboratable, Module, Signal
from amaranth.sim import Simulator
from amaranth.sim._async import BrokenTrigger

warnings.filterwarnings("ignore", category=RuntimeWarning)


class _Wrapper(Elaboratable):
    def __init__(self, dut, domain):
        self.dut = dut
        self.domain = domain
        self.cycle = Signal(40)

    def elaborate(self, platform):
        m = Module()
        m.submodules.dut = self.dut
        m.d[self.domain] += self.cycle.eq(self.cycle + 1)
        return m


class EventHarness:
    def __init__(self, dut, ins, outs, domain="ss", period=1e-6):
        self.wrap = _Wrapper(dut, domain)
        self.in_names = list(ins)
        self.in_sigs = dict(ins)
        self.out_names = list(outs)
        self.out_sigs = [outs[n] for n in self.out_names]
        self.domain = domain
        self.sim = Simulator(self.wrap)
        self.sim.add_clock(period, domain=domain)
        self._job = None
        self._first = True
        self.sim.add_testbench(self._stimulus)
        self.sim.add_testbench(self._sampler, background=True)

    async def _stimulus(self, ctx):
        job = self._job
        if job is None:
            return
        cur = {}
        for vals, n in job["events"]:
            for name, v in vals.items():
                if cur.get(name) != v:
                    ctx.set(self.in_sigs[name], v)
                    cur[name] = v
            if n > 0:
                await ctx.tick(self.domain).repeat(n)
        job["end_cycle"] = ctx.get(self.wrap.cycle)

    async def _sampler(self, ctx):
        job = self._job
        if job is None:
            return
        log = job["log"]
        n = len(self.out_sigs)
        prev = [0] * n
        # One-shot waits: a testbench only runs once the design has settled, so reading the outputs after the
        # wake-up sees the final values of this time step even when several outputs change in different delta
        # cycles (a multi-shot ``async for`` raises BrokenTrigger in that situation).
        # BrokenTrigger only says "another watched output changed between the wake-up and the resumption" (e.g. a
        # combinational reaction to what the stimulus testbench set in the same time step); the values read below
        # are the settled ones, so nothing is lost.
        while True:
            try:
                await ctx.changed(*self.out_sigs)
            except BrokenTrigger:
                pass
            cyc = ctx.get(self.wrap.cycle)
            for i in range(n):
                v = ctx.get(self.out_sigs[i])
                if v != prev[i]:
                    log.append((cyc, self.out_names[i], v))
                    prev[i] = v

    def run(self, events):
        """events: [(dict name->value, cycles), ...].  Returns (log, end_cycle): log = [(cycle, output name, value)]
        for every output change (all outputs start at 0)."""
        self._job = dict(events=events, log=[], end_cycle=None)
        if not self._first:
            self.sim.reset()
        self._first = False
        self.sim.run()
        return self._job["log"], self._job["end_cycle"]


def intervals(log, name, end_cycle):
    """High intervals [(first cycle, length)] of one output from a change log."""
    out = []
    start = None
    for cyc, n, v in log:
        if n != name:
            continue
        if v and start is None:
            start = cyc
        elif not v and start is not None:
            if cyc > start:
                out.append((start, cyc - start))
            start = None
    if start is not None and end_cycle > start:
        out.append((start, end_cycle - start))
    return out
