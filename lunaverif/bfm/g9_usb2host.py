"""Family-B harness: a complete LUNA USB2 device behind a bare UTMI interface + a Python host BFM.

DUTs (built once per worker, `Simulator.reset()` per case):
  "full"    USBDevice(bus=UTMIInterface()) + standard control endpoint, bulk IN ep1, bulk OUT ep2,
            signal IN ep3 (16 bit), bulk IN ep4 + bulk OUT ep4 (same number, both directions); max packet 8.
  "wide"    same construction with bulk IN+OUT ep1, bulk IN+OUT ep9 (endpoint numbers that differ only in bit 3
            of the 4-bit endpoint number) and signal IN ep3; max packet 8.
  "serial"  luna.full_devices.USBSerialDevice(bus=UTMIInterface())  (status IN ep3, data IN/OUT ep4, max packet 64)

A bare UTMI bus makes the device full-speed only with the "12 MHz" timer table (response 2 cycles after the
end of a packet) -- the one speed such a device uses.

Host program = list of primitive ops (JSON-able dicts):
  {"op":"idle","n":N}                       N idle cycles
  {"op":"sof","frame":F | {"hi":h,"xor":k}}  SOF; dict form: frame = (h << 7) | (device's current address XOR k)
  {"op":"reset","n":N}                      SE0 on line_state for N cycles (>= 305: bus reset; <= 40: not one)
  {"op":"setup","req":[bm,bReq,wValue,wIndex,wLength], "addr":"dev"|int}
  {"op":"in","ep":E,"ack":0|1,"addr":...}   IN token; the host ACKs a good data packet iff ack
      + "xack":1,"gap":N on an IN to another device's address ({"xor":k}): nothing answers on our port (the other
        device's data is not repeated downstream); after the response window + N idle cycles the host ACKs it
  {"op":"out","ep":E,"data":[..],"flip":0|1 (non-control: 1 = re-use the previous toggle) | "pid":0|1 (ep0)}
  {"op":"ping","ep":E}
  {"op":"feed","ep":E,"data":[..],"last":0|1}   queue bytes on the IN stream of endpoint E (takes no bus time)
  {"op":"sig","value":V}                    change the status signal
  {"op":"drain","ep":E,"max":N}             acknowledged INs on stream endpoint E until it NAKs with nothing left to send

Soundness (DESIGN.md section 3): rx_valid => rx_active; rx_active rises >= 1 cycle before the first byte; >= 2 idle
cycles between packets; the host never transmits while the device does, sends a handshake only after a good
data packet, waits the response window (18 bit times) before it gives up on a response; tx_ready is any
pattern with bounded gaps; stream producers hold valid/payload until accepted.
"""
from amaranth import Elaboratable, Module, Signal, Cat

from lunaverif.core import HarnessError
from lunaverif.ref import usb2 as U
from lunaverif.ref import g9_device_model as M
from lunaverif.simkit import CycleHarness

RESPONSE_WINDOW = 18          # cycles (= FS bit times on this bus) the host waits for a response to start
MAX_TAIL = 6                  # cycles (bit times) a PHY may keep rx_active high after the last byte of a packet: an
                              # optional stuffed bit + a hub's dribble bit + 2 bit times of SE0 + the J that completes
                              # the EOP + one cycle of output register (ULPI 1.1 table 7: FS "RX end delay" 17-18 clocks
                              # of 60 MHz = 3.6 bit times after the start of the EOP).  The in-tree GatewarePHY ends
                              # rx_active on the first SE0 bit: 0..1 cycles (measured); UTMITranslator follows the PHY.
J_STATE, SE0 = 0b01, 0b00

FULL_MPS = 8


# ---------------------------------------------------------------------------------------------- descriptors
FULL_LAYOUT = dict(ins={"ep1": 1, "ep4i": 4}, outs={"ep2": 2, "ep4o": 4}, sig=3)
WIDE_LAYOUT = dict(ins={"ep1i": 1, "ep9i": 9}, outs={"ep1o": 1, "ep9o": 9}, sig=3)


def full_descriptor_collection(layout=FULL_LAYOUT):
    from usb_protocol.emitters import DeviceDescriptorCollection
    d = DeviceDescriptorCollection()
    with d.DeviceDescriptor() as dd:
        dd.idVendor = 0x1209
        dd.idProduct = 0x0009
        dd.iManufacturer = "LUNA"
        dd.iProduct = "lunaverif family-B device with a long name"      # > 64 bytes as a descriptor
        dd.iSerialNumber = "g9"
        dd.bNumConfigurations = 1
    with d.ConfigurationDescriptor() as c:
        with c.InterfaceDescriptor() as i:
            i.bInterfaceNumber = 0
            addrs = sorted([(n, 0x80 | n) for n in layout["ins"].values()] + [(n, n) for n in layout["outs"].values()],
                           key=lambda a: (a[0], -a[1]))
            for _, addr in addrs:
                with i.EndpointDescriptor() as e:
                    e.bEndpointAddress = addr
                    e.wMaxPacketSize = FULL_MPS
            with i.EndpointDescriptor() as e:
                e.bEndpointAddress = 0x80 | layout["sig"]
                e.bmAttributes = 0x03
                e.wMaxPacketSize = FULL_MPS
                e.bInterval = 10
    return d


def descriptor_table(collection):
    return {(t, i): bytes(raw) for t, i, raw in collection}


def serial_expected_descriptors(id_vendor, id_product, manufacturer, product, serial, mps=64):
    """What a CDC-ACM serial function with the documented topology (status IN ep3, data IN/OUT ep4) describes,
    built here with usb_protocol's emitters (third-party, not LUNA gateware)."""
    from usb_protocol.emitters import DeviceDescriptorCollection
    from usb_protocol.emitters.descriptors import cdc
    d = DeviceDescriptorCollection()
    with d.DeviceDescriptor() as dd:
        dd.idVendor = id_vendor
        dd.idProduct = id_product
        dd.iManufacturer = manufacturer
        dd.iProduct = product
        dd.iSerialNumber = serial
        dd.bNumConfigurations = 1
    with d.ConfigurationDescriptor() as c:
        with c.InterfaceAssociationDescriptor() as ia:
            ia.bFirstInterface = 0
            ia.bInterfaceCount = 2
            ia.bFunctionClass = 2
            ia.bFunctionSubClass = 2
            ia.bFunctionProtocol = 1
        with c.InterfaceDescriptor() as i:
            i.bInterfaceNumber = 0
            i.bInterfaceClass = 2
            i.bInterfaceSubclass = 2
            i.bInterfaceProtocol = 1
            i.add_subordinate_descriptor(cdc.HeaderDescriptorEmitter())
            union = cdc.UnionFunctionalDescriptorEmitter()
            union.bControlInterface = 0
            union.bSubordinateInterface0 = 1
            i.add_subordinate_descriptor(union)
            cm = cdc.CallManagementFunctionalDescriptorEmitter()
            cm.bDataInterface = 1
            i.add_subordinate_descriptor(cm)
            with i.EndpointDescriptor() as e:
                e.bEndpointAddress = 0x83
                e.bmAttributes = 3
                e.wMaxPacketSize = mps
                e.bInterval = 11
        with c.InterfaceDescriptor() as i:
            i.bInterfaceNumber = 1
            i.bInterfaceClass = 0x0A
            i.bInterfaceSubclass = 0
            i.bInterfaceProtocol = 0
            with i.EndpointDescriptor() as e:
                e.bEndpointAddress = 0x84
                e.wMaxPacketSize = mps
            with i.EndpointDescriptor() as e:
                e.bEndpointAddress = 0x04
                e.wMaxPacketSize = mps
    return descriptor_table(d)


SERIAL_ARGS = dict(idVendor=0x16D0, idProduct=0x0F3B, manufacturer_string="LUNA", product_string="USB-to-serial",
                   serial_number="verif-57")


# ---------------------------------------------------------------------------------------------- DUT wrappers
class _Wrapped(Elaboratable):
    """Common port plumbing: every stream the harness touches is exposed as plain signals."""

    def __init__(self):
        from luna.gateware.interface.utmi import UTMIInterface
        self.utmi = UTMIInterface()
        self.connect = Signal()
        self.in_streams = {}      # name -> (valid, payload, last, ready)
        self.out_streams = {}     # name -> (ready, packed)   packed = valid | first<<1 | last<<2 | payload<<3
        self.sig = None

    def ports(self):
        """-> (ins, outs, layout): all observed signals are packed into ONE sampled word (sampling is a large part of
        the per-cycle cost): bit 0 tx_valid, bits 1..8 tx_data, then one ready bit per IN stream, then 11 bits
        (valid, first, last, payload) per OUT stream.  layout maps names to bit offsets."""
        u = self.utmi
        ins = dict(rx_active=u.rx_active, rx_valid=u.rx_valid, rx_data=u.rx_data, tx_ready=u.tx_ready,
                   line_state=u.line_state, connect=self.connect)
        parts = [u.tx_valid, u.tx_data]
        layout = {}
        pos = 9
        for n, (v, p, l, r) in self.in_streams.items():
            ins[n + "_valid"], ins[n + "_payload"], ins[n + "_last"] = v, p, l
            parts.append(r)
            layout[n] = pos
            pos += 1
        for n, (rdy, packed) in self.out_streams.items():
            ins[n + "_ready"] = rdy
            parts.append(packed)
            layout[n] = pos
            pos += 11
        if self.sig is not None:
            ins["sig"] = self.sig
        self.obs = Signal(pos, name="g9_obs")
        self._obs_parts = parts
        return ins, dict(obs=self.obs), layout


class FullDevice(_Wrapped):
    def __init__(self, layout=FULL_LAYOUT):
        super().__init__()
        self.layout_eps = layout
        self.collection = full_descriptor_collection(layout)
        # pre-create port signals (elaborate fills the logic)
        self._m = None
        self.sig = Signal(16, name="status_signal")
        for n in layout["ins"]:
            self.in_streams[n] = (Signal(name=n + "_valid"), Signal(8, name=n + "_payload"), Signal(name=n + "_last"),
                                  Signal(name=n + "_ready"))
        for n in layout["outs"]:
            self.out_streams[n] = (Signal(name=n + "_ready"), Signal(11, name=n + "_out"))

    def _add_control(self, usb):
        """The control endpoint of the device (hook: subclasses configure the standard handler differently)."""
        usb.add_standard_control_endpoint(self.collection)

    def elaborate(self, platform):
        from luna.gateware.usb.usb2.device import USBDevice
        from luna.gateware.usb.usb2.endpoints.stream import USBStreamInEndpoint, USBStreamOutEndpoint
        from luna.gateware.usb.usb2.endpoints.status import USBSignalInEndpoint
        m = Module()
        m.submodules.usb = usb = USBDevice(bus=self.utmi)
        self._add_control(usb)
        lay = self.layout_eps
        ins = [(n, USBStreamInEndpoint(endpoint_number=e, max_packet_size=FULL_MPS)) for n, e in lay["ins"].items()]
        outs = [(n, USBStreamOutEndpoint(endpoint_number=e, max_packet_size=FULL_MPS)) for n, e in lay["outs"].items()]
        ep3 = USBSignalInEndpoint(width=16, endpoint_number=lay["sig"])
        # added in the order of the original "full" rig: by number, IN side first (ep1 IN, ep2 OUT, ep3, ep4 IN, ep4 OUT)
        order = sorted([(lay["ins"][n], 0, e) for n, e in ins] + [(lay["outs"][n], 1, e) for n, e in outs]
                       + [(lay["sig"], 0, ep3)], key=lambda x: x[:2])
        for _, _, ep in order:
            usb.add_endpoint(ep)
        m.d.comb += [usb.connect.eq(self.connect), ep3.signal.eq(self.sig)]
        for n, ep in ins:
            v, p, l, r = self.in_streams[n]
            s = ep.stream
            m.d.comb += [s.valid.eq(v), s.payload.eq(p), s.last.eq(l), s.first.eq(0), r.eq(s.ready)]
        for n, ep in outs:
            rdy, packed = self.out_streams[n]
            s = ep.stream
            m.d.comb += [s.ready.eq(rdy), packed.eq(Cat(s.valid, s.first, s.last, s.payload))]
        m.d.comb += self.obs.eq(Cat(*self._obs_parts))
        return m


class SerialDevice(_Wrapped):
    def __init__(self):
        super().__init__()
        self.in_streams["tx"] = (Signal(name="tx_valid_i"), Signal(8, name="tx_payload_i"), Signal(name="tx_last_i"),
                                 Signal(name="tx_ready_o"))
        self.out_streams["rx"] = (Signal(name="rx_ready_i"), Signal(11, name="rx_out"))

    def elaborate(self, platform):
        from luna.full_devices import USBSerialDevice
        m = Module()
        m.submodules.serial = dev = USBSerialDevice(bus=self.utmi, **SERIAL_ARGS)
        v, p, l, r = self.in_streams["tx"]
        rdy, packed = self.out_streams["rx"]
        m.d.comb += [
            dev.connect.eq(self.connect),
            dev.tx.valid.eq(v), dev.tx.payload.eq(p), dev.tx.last.eq(l), dev.tx.first.eq(0), r.eq(dev.tx.ready),
            dev.rx.ready.eq(rdy), packed.eq(Cat(dev.rx.valid, dev.rx.first, dev.rx.last, dev.rx.payload)),
            self.obs.eq(Cat(*self._obs_parts)),
        ]
        return m


class Rig:
    """One elaborated device + the static facts the BFM and the model need."""

    def __init__(self, kind):
        self.kind = kind
        if kind == "full":
            self.dut = FullDevice()
            self.in_ports = {1: "ep1", 4: "ep4i"}
            self.out_ports = {2: "ep2", 4: "ep4o"}
            self.descriptors = descriptor_table(self.dut.collection)
            self.acm = False
        elif kind == "wide":
            self.dut = FullDevice(WIDE_LAYOUT)
            self.in_ports = {e: n for n, e in WIDE_LAYOUT["ins"].items()}
            self.out_ports = {e: n for n, e in WIDE_LAYOUT["outs"].items()}
            self.descriptors = descriptor_table(self.dut.collection)
            self.acm = False
        elif kind == "serial":
            self.dut = SerialDevice()
            self.in_ports = {4: "tx"}
            self.out_ports = {4: "rx"}
            a = SERIAL_ARGS
            self.descriptors = serial_expected_descriptors(a["idVendor"], a["idProduct"], a["manufacturer_string"],
                                                           a["product_string"], a["serial_number"])
            self.acm = True
        else:
            raise ValueError(kind)
        ins, outs, self.layout = self.dut.ports()
        self.harness = CycleHarness(self.dut, ins, outs, domain="usb", period=1 / 12e6)

    def new_model(self):
        if self.kind == "full":
            eps = {(1, "in"): M.StreamIn(FULL_MPS), (2, "out"): M.StreamOut(FULL_MPS), (3, "in"): M.SignalIn(2),
                   (4, "in"): M.StreamIn(FULL_MPS), (4, "out"): M.StreamOut(FULL_MPS)}
        elif self.kind == "wide":
            eps = {(1, "in"): M.StreamIn(FULL_MPS), (1, "out"): M.StreamOut(FULL_MPS), (3, "in"): M.SignalIn(2),
                   (9, "in"): M.StreamIn(FULL_MPS), (9, "out"): M.StreamOut(FULL_MPS)}
        else:
            eps = {(3, "in"): M.StreamIn(64), (4, "in"): M.StreamIn(64), (4, "out"): M.StreamOut(64)}
        return M.DeviceModel(self.descriptors, eps, acm=self.acm)


_RIGS = {}


def rig(kind):
    if kind not in _RIGS:
        _RIGS[kind] = Rig(kind)
    return _RIGS[kind]


# ---------------------------------------------------------------------------------------------- the host
class Violation(Exception):
    def __init__(self, cls, msg):
        super().__init__(msg)
        self.cls = cls
        self.msg = msg


class Run:
    """Result of one simulated program."""

    def __init__(self):
        self.txns = []            # judged transactions, in order
        self.violation = None     # dict(cls, msg, txn?) for the first divergence
        self.cycles = 0
        self.durations = {}       # op index -> cycles it took
        self.model = None
        self.bursts = 0


class HostBFM:
    def __init__(self, rig_, program, tm=(0,), txr=(1,), in_valid=(1,), out_ready=(1,), judge=True,
                 keep=None, durations=None, drain=40, tails=None):
        self.rig = rig_
        # tails: None = the historic behaviour (rx_active stays high 0..2 cycles after a packet's last byte, taken
        # from `tm`); a non-empty list = cycles rx_active stays high after the last byte, chosen per packet with the
        # same (op index, use count) indexing as the `tm` values (a PHY that negates RXActive only once it has seen
        # the whole EOP).  MAX_TAIL is the longest a caller should ask for on this 1-cycle-per-bit bus.
        self.tails = [min(max(int(x), 0), MAX_TAIL) for x in tails] if tails else None
        self.model = rig_.new_model()
        self.program = program
        self.tm = list(tm) or [0]
        self.txr = list(txr) or [1]
        if not any(self.txr):
            self.txr = self.txr + [1]
        gap = max(len(z) for z in "".join(str(int(bool(x))) for x in self.txr * 2).split("1"))
        self.max_burst = 72 * (min(gap, len(self.txr)) + 1) + 64
        self.in_valid = list(in_valid) or [1]
        if not any(self.in_valid):
            self.in_valid = self.in_valid + [1]
        self.out_ready = list(out_ready) or [1]
        self.judge = judge
        self.keep = keep
        self.durations = durations or {}
        self.drain = drain
        self.run = Run()
        self.run.model = self.model
        self.t = 0
        self.txr_prev = 0
        self.listening = False
        # stream side
        self.feed_q = {n: [] for n in rig_.in_ports.values()}
        self.feed_cur = {n: None for n in rig_.in_ports.values()}
        self.in_ep = {n: e for e, n in rig_.in_ports.items()}
        self.out_ep = {n: e for e, n in rig_.out_ports.items()}
        self.out_rdy_prev = {n: 0 for n in rig_.out_ports.values()}
        self.draining = False
        self.host = self._host()
        self.first = True
        self._op_index = 0
        self._tm_k = 0

    # -- timing values: deterministic function of (op index, use count) so that filtered re-runs line up
    def _tv(self):
        v = self.tm[(self._op_index * 5 + self._tm_k) % len(self.tm)]
        self._tm_k += 1
        return v

    # -- driver entry point ---------------------------------------------------------------------
    def step(self, t, prev):
        self.t = t
        upd = {}
        if prev is not None:
            self._monitor_streams(prev, t - 1)
        try:
            if self.first:
                self.first = False
                h = next(self.host)
            else:
                h = self.host.send(prev)
        except StopIteration:
            self.run.cycles = t
            return None
        except Violation as v:
            if self.run.violation is None:
                self.run.violation = dict(cls=v.cls, msg=v.msg, cycle=t)
            self.run.cycles = t
            return None
        upd.update(h)
        r = self.txr[t % len(self.txr)]
        upd["tx_ready"] = r
        self.txr_prev = r
        self._drive_streams(upd, t)
        return upd

    def _monitor_streams(self, prev, tp):
        obs = prev.obs
        layout = self.rig.layout
        for n, cur in self.feed_cur.items():
            if cur is not None and (obs >> layout[n]) & 1:
                self.model.eps[(self.in_ep[n], "in")].accept(cur[0], cur[1], tp)
                self.feed_cur[n] = None
        for n, rdy in self.out_rdy_prev.items():
            if rdy:
                w = (obs >> layout[n]) & 0x7FF
                if w & 1:
                    self.model.eps[(self.out_ep[n], "out")].consume(w >> 3, (w >> 1) & 1, (w >> 2) & 1, tp)

    def _drive_streams(self, upd, t):
        for n, q in self.feed_q.items():
            if self.feed_cur[n] is None:
                if q and self.in_valid[t % len(self.in_valid)]:
                    b, last = q.pop(0)
                    self.feed_cur[n] = (b, last)
                    upd[n + "_valid"], upd[n + "_payload"], upd[n + "_last"] = 1, b, last
                else:
                    upd[n + "_valid"] = 0
        for n in self.out_rdy_prev:
            r = 1 if self.draining else self.out_ready[t % len(self.out_ready)]
            upd[n + "_ready"] = r
            self.out_rdy_prev[n] = r

    # -- host process ---------------------------------------------------------------------------
    def _idle(self, n):
        for _ in range(n):
            o = yield {"rx_active": 0, "rx_valid": 0}
            if (o.obs & 1):
                raise Violation("unsolicited-tx", f"device drives tx_valid at cycle {self.t - 1} although no "
                                                  f"host packet is awaiting a response")

    def _send(self, data):
        """One host packet on the UTMI receive side; returns the last cycle in which rx_active was high."""
        lead = 1 + self._tv() % 3
        for _ in range(lead):
            o = yield {"rx_active": 1, "rx_valid": 0}
            self._no_tx(o)
        n = len(data)
        for i, b in enumerate(data):
            o = yield {"rx_active": 1, "rx_valid": 1, "rx_data": b}
            self._no_tx(o)
            if i != n - 1:
                for _ in range(self._tv() % 9):
                    o = yield {"rx_active": 1, "rx_valid": 0}
                    self._no_tx(o)
        k = self._op_index * 5 + self._tm_k
        tail = self._tv() % 3                   # always drawn, so that the other timing values do not depend on `tails`
        if self.tails is not None:
            tail = self.tails[k % len(self.tails)]
        for _ in range(tail):
            o = yield {"rx_active": 1, "rx_valid": 0}
            self._no_tx(o)
        return self.t

    def _no_tx(self, o):
        if (o.obs & 1):
            raise Violation("tx-during-rx", f"device drives tx_valid at cycle {self.t - 1} while the host packet is "
                                            f"still in progress (rx_active high)")

    def _response(self):
        """Wait the response window; returns (raw bytes | None, first cycle, last cycle)."""
        o = None
        for _ in range(RESPONSE_WINDOW):
            o = yield {"rx_active": 0, "rx_valid": 0}
            if (o.obs & 1):
                break
        else:
            return None, None, None
        start = self.t - 1
        raw = []
        while (o.obs & 1):
            if self.txr_prev:
                raw.append(((o.obs >> 1) & 0xFF))
            if self.t - start > self.max_burst:
                raise Violation("tx-stuck", f"tx_valid held for more than {self.max_burst} cycles from cycle {start}")
            o = yield {}
        self.run.bursts += 1
        return bytes(raw), start, self.t - 2

    def _addr(self, op):
        a = op.get("addr", "dev")
        if isinstance(a, dict):             # {"xor": k}: another device's address, relative to ours
            return (self.model.addr ^ a["xor"]) & 0x7F
        return self.model.addr if a == "dev" else a

    def _finish(self, txn):
        self.run.txns.append(txn)
        resp = txn["resp"]
        if resp[0] == "bad":
            raise Violation("malformed-packet", f"op {txn['i']} ({txn['kind']} ep{txn.get('ep')}): device transmitted "
                                                f"{resp[1]} at cycles {txn['t_resp']}")
        ok, allowed, ctx = self.model.judge(txn) if self.judge else self._track(txn)
        txn["allowed"] = allowed
        txn["ctx"] = ctx
        if not ok:
            self.run.violation = dict(
                cls="response", txn=txn, cycle=self.t,
                msg=f"op {txn['i']} {ctx}: device answered {M.show(resp)}, allowed: "
                    f"{' | '.join(M.show(a) for a in allowed)} (token ended at cycle {txn['t_tok_end']})")
            raise Violation("response", self.run.violation["msg"])

    def _track(self, txn):
        # un-judged mode (metamorphic runs): keep the host's own bookkeeping (toggles) going, never a verdict
        try:
            allowed, ctx, upd = self.model._expect(txn)
            if upd is not None:
                upd(txn["resp"])
        except HarnessError:
            allowed, ctx = [], "untracked"
        return True, allowed, ctx

    def _host(self):
        o = yield {"connect": 1, "line_state": J_STATE, "rx_active": 0, "rx_valid": 0, "rx_data": 0}
        yield from self._idle(3)
        for i, op in enumerate(self.program):
            self._op_index = i
            self._tm_k = 0
            t0 = self.t
            kind = op["op"]
            if self.keep is not None and kind not in ("feed", "sig") and not self.keep(op):
                yield from self._idle(self.durations.get(i, 0))
                continue
            if kind == "idle":
                yield from self._idle(op["n"])
            elif kind == "feed":
                name = self.rig.in_ports[op["ep"]]
                data = op["data"]
                for k, b in enumerate(data):
                    self.feed_q[name].append((b, 1 if (op.get("last") and k == len(data) - 1) else 0))
            elif kind == "sig":
                self.model.eps[(3, "in")].value = op["value"]
                o = yield {"sig": op["value"]}
                yield from self._idle(2)
            elif kind == "reset":
                n = op["n"]
                o = yield {"line_state": SE0}
                yield from self._idle(max(0, n - 1))
                o = yield {"line_state": J_STATE}
                yield from self._idle(3)
                if n >= 305:
                    self.model.bus_reset()
                elif n > 40:
                    raise HarnessError("reset lengths between 41 and 304 cycles are not generated")
            elif kind == "sof":
                frame = op["frame"]
                if isinstance(frame, dict):
                    # frame number chosen relative to the device's CURRENT address: the 11 payload bits of an SOF
                    # sit where ADDR[6:0] + ENDP[3:0] sit in the other tokens
                    frame = ((frame.get("hi", 0) & 0xF) << 7) | ((self.model.addr ^ frame.get("xor", 0)) & 0x7F)
                yield from self._send(U.sof(frame))
                txn = dict(i=i, kind="sof", addr=None, ep=None, ack=0, frame=frame, dev_addr=self.model.addr)
                txn["t_tok_end"] = self.t - 1
                raw, a, b = yield from self._short_listen()
                txn["resp"], txn["t_resp"] = M.parse_response(raw), (a, b)
                self._finish(txn)
            elif kind == "drain":
                # fetch IN packets from a stream endpoint until it has nothing more to give (bounded)
                name = self.rig.in_ports[op["ep"]]
                # The bound counts only polls that cannot make progress any more: while the producer is still
                # feeding (slow in_valid / tx_ready patterns make that take hundreds of cycles) NAKs are expected
                # and do not count; the drain ends at the SECOND consecutive NAK seen with nothing left to feed
                # (the first may fall between the last byte being taken and the packet becoming ready).
                quiet_naks = 0
                budget = op.get("max", 40)
                for _ in range(600):
                    yield from self._transaction(i, dict(op="in", ep=op["ep"], ack=1))
                    if self.run.txns[-1]["resp"] == M.NAK:
                        if not self.feed_q[name] and self.feed_cur[name] is None:
                            quiet_naks += 1
                            if quiet_naks >= 2:
                                break
                        yield from self._idle(24)
                    else:
                        quiet_naks = 0
                        budget -= 1
                        if budget <= 0:
                            break
                        yield from self._idle(3)
            else:
                yield from self._transaction(i, op)
            yield from self._idle(2 + self._tv() % 6)
            self.run.durations[i] = self.t - t0
        # epilogue: let the OUT FIFOs drain
        self.draining = True
        depth = max([e.depth for e in self.model.eps.values() if hasattr(e, "depth")] or [0])
        yield from self._idle(max(self.drain, depth + 16))

    def _short_listen(self):
        # after a packet that solicits nothing the host may continue after the minimum gap; a device that
        # answers anyway is caught by the idle/next-packet monitors.
        return (yield from self._response_n(4))

    def _response_n(self, n):
        for _ in range(n):
            o = yield {"rx_active": 0, "rx_valid": 0}
            if (o.obs & 1):
                raise Violation("unsolicited-tx", f"device answers a packet that solicits no response (cycle {self.t - 1})")
        return None, None, None

    def _transaction(self, i, op):
        kind = op["op"]
        ep = op.get("ep", 0)
        addr = self._addr(op)
        txn = dict(i=i, kind=kind, addr=addr, ep=ep, ack=0, t0=self.t)
        if kind == "in":
            yield from self._send(U.token(U.PID_IN, addr, ep))
            txn["t_tok_end"] = self.t - 1
            raw, a, b = yield from self._response()
            resp = M.parse_response(raw)
            txn["resp"], txn["t_resp"] = resp, (a, b)
            if resp[0] == "data" and op.get("ack", 1):
                yield from self._idle(2 + self._tv() % 3)
                yield from self._send(U.handshake(U.PID_ACK))
                txn["ack"] = 1
                txn["t_ack_end"] = self.t - 1
            elif op.get("xack") and resp == M.NONE and addr != self.model.addr:
                # a transaction with ANOTHER device behind the same hub: that device's data packet travels upstream
                # only (a hub does not repeat it on our port), the host's ACK of it is broadcast downstream like
                # every host packet.  Our device saw: IN token for a foreign address, an idle bus, ACK.
                yield from self._idle(op.get("gap", 0) + self._tv() % 5)
                yield from self._send(U.handshake(U.PID_ACK))
                txn["xack"] = 1
                txn["t_ack_end"] = self.t - 1
            self._finish(txn)
            return
        if kind == "ping":
            oe = self.model.eps.get((ep, "out"))
            yield from self._send(U.token(U.PID_PING, addr, ep))
            txn["t_tok_end"] = self.t - 1
            txn["occ"] = oe.occupancy() if oe is not None else 0
            raw, a, b = yield from self._response()
            txn["resp"], txn["t_resp"] = M.parse_response(raw), (a, b)
            self._finish(txn)
            return
        if kind == "setup":
            payload = U.setup_payload(*op["req"])
            pid = U.PID_DATA0
            txn["req"] = list(op["req"])
            tok = U.PID_SETUP
        elif kind == "out":
            payload = bytes(op["data"])
            if ep == 0 or "pid" in op:
                tog = op.get("pid", 1)
            else:
                tog = self.model.out_toggle(ep) ^ (1 if op.get("flip") else 0)
            pid = M.data_pid(tog)
            tok = U.PID_OUT
        else:
            raise HarnessError(f"unknown op {kind}")
        oe = self.model.eps.get((ep, "out")) if ep else None
        yield from self._send(U.token(tok, addr, ep))
        yield from self._idle(2 + self._tv() % 4)
        txn["occ"] = oe.occupancy() if oe is not None else 0
        yield from self._send(U.data_packet(pid, payload))
        txn["t_tok_end"] = self.t - 1
        txn["pid"], txn["data"] = pid, list(payload)
        raw, a, b = yield from self._response()
        txn["resp"], txn["t_resp"] = M.parse_response(raw), (a, b)
        self._finish(txn)


def execute(kind, program, tm=(0,), txr=(1,), in_valid=(1,), out_ready=(1,), judge=True, keep=None,
            durations=None, max_cycles=60000, tails=None):
    """Run one program on the (cached) rig of the given kind; returns a Run."""
    r = rig(kind)
    bfm = HostBFM(r, program, tm=tm, txr=txr, in_valid=in_valid, out_ready=out_ready, judge=judge, keep=keep,
                  durations=durations, tails=tails)
    r.harness.run_driver(bfm, max_cycles)
    run = bfm.run
    if run.cycles == 0:
        run.cycles = max_cycles
        if run.violation is None:
            raise HarnessError(f"program did not finish within {max_cycles} cycles")
    return run


def stream_check(run):
    """After a run: every OUT endpoint delivered exactly the acknowledged in-sequence payloads (prefix while a
    violation stopped the run early).  Returns an error string or None."""
    for (ep, d), e in run.model.eps.items():
        if d == "out":
            err = e.stream_error()
            if err:
                return f"OUT ep{ep} stream: {err}"
            if run.violation is None and not e.complete():
                return (f"OUT ep{ep} stream: {len(e.expected)} bytes acknowledged but {len(e.consumed)} delivered "
                        f"after the drain")
    return None
