"""UTMITranslator on a ULPI bus WITH a reset pin, in an explicit `usb` clock domain whose reset the testbench drives
(C24 "reset" sub).

With a `rst` member in the ULPI record the translator wires the PHY's reset pin to ResetSignal("usb") and waits the
PHY's start-up time (1 ms = 60000 cycles of the 60 MHz ULPI clock, [USB334x table 4.3]) before it uses the bus.  A
reset of the `usb` domain therefore resets the PHY as well: the PHY model is replaced by a fresh one (register file
back at the ULPI defaults, bus idle) whenever the testbench pulses the domain reset.

Two configurations:
  * "real"   the unmodified UTMITranslator (60000-cycle start-up wait; idle stretches of the wait are fast-forwarded
             by the harness, stopping early if the link drives anything);
  * "scaled" a subclass that overrides only the class constant `_CYCLES_1_MILLISECONDS` (the way a user adapts the wait
             to another clock) to SCALED_STARTUP cycles, so that thousands of reset histories are affordable.
"""

import warnings
from collections import namedtuple

from lunaverif.bfm import g7_ulpi_phy as P

warnings.filterwarnings("ignore", category=RuntimeWarning)

REAL_STARTUP = 60000          # 1 ms at 60 MHz: ULPI PHY start-up time the link may wait after power-up / reset
SCALED_STARTUP = 120


class EpochDriver(P.TranslatorDriver):
    """TranslatorDriver for one reset-free stretch ("epoch") in local time.  `guard`: the link may leave the bus alone
    until this cycle (PHY start-up wait), so quietness is only counted from then on; events carrying `late: 1` are
    armed at `guard` at the earliest (they land after the start-up wait instead of inside it)."""

    def __init__(self, *a, guard=0, cut_state=0, **kw):
        super().__init__(*a, **kw)
        self.guard = guard
        self.cut_state = cut_state     # end the epoch as soon as the PHY is in this state (codes of _sync_ok: 1 register
        #                                write command pending, 2 write data phase, 3 write STP phase, 4 transmit
        #                                command pending, 5 transmit data phase); 0 = never

    def step(self, t, prev):
        if t < self.guard:
            self.quiet_count = 0
        if self.cut_state:
            p = self.phy
            hit = {1: p.state == P.CMD and p.kind == "regw", 2: p.state == P.RWD, 3: p.state == P.RWS,
                   4: p.state == P.CMD and p.kind == "tx", 5: p.state == P.TXD}.get(self.cut_state, False)
            if hit:
                self.ended = "cut-" + P.STATE_NAMES[p.state]
                return None
        if self.ei < len(self.events) and self.events[self.ei].get("late") and self.armed_at is not None \
                and self.armed_at < self.guard:
            self.armed_at = self.guard
        return super().step(t, prev)

    # ---- fast-forward support ---------------------------------------------------------------------------
    def can_skip(self, t, prev):
        """Number of cycles (after the one being driven now) in which, by construction, neither the PHY nor the
        UTMI side will do anything: all remaining events are `late`, nothing is in progress, the link is silent."""
        if prev is None or prev.do or prev.stp or self.tx is not None or not self.phy.idle():
            return 0
        if self.ei < len(self.events) and not self.events[self.ei].get("late"):
            return 0
        return max(0, self.guard - 4 - t)

    def skipped(self, k):
        """k cycles were fast-forwarded with the bus idle: keep the per-cycle logs aligned."""
        self.phy.wire.extend([(0, 0, 0)] * k)
        self.txv.extend([0] * k)
        self.idle_run += k


class ResetChainDriver:
    """Chains epochs separated by pulses of the `usb` domain reset.

    epochs: list of dict(rst=<reset pulse length before the epoch; ignored for the first (power-up)>,
                         set={control inputs changed while the reset is asserted},
                         ev=[events of g7_ulpi_gen], cut=None | int, cuts=<PHY state code, optional>)
    An epoch ends when the bus has been quiet for `quiet` cycles after the start-up wait, or -- if it carries `cut` and
    is not the last one -- at local cycle max(1, startup + cut), or (with a non-zero `cuts` PHY-state code) as soon as
    the PHY is in that state, at the latest 300 cycles later: the reset then strikes at that point of the
    history (inside the wait, inside a register write or a transmission, ...).  The UTMI transmit source is in the
    same domain and is reset with it (tx_valid low from the first reset cycle)."""

    def __init__(self, init_ctl, epochs, delays, quiet, startup, caps, commit_on_dir_stp=False):
        self.ctl = dict(init_ctl)
        self.epochs = epochs
        self.delays = delays
        self.quiet = quiet
        self.startup = startup
        self.caps = caps
        self.cds = commit_on_dir_stp
        self.k = -1
        self.drv = None
        self.done = []                 # finished epochs: dict(drv, t0, cut, ctl_at_reset)
        self.phase = "start"
        self.t0 = 0
        self.rst_left = 0
        self.skip = 0

    def _begin(self, t):
        self.k += 1
        e = self.epochs[self.k]
        last = self.k == len(self.epochs) - 1
        guard = self.startup + 4
        cut = None if last else e.get("cut")
        cuts = 0 if cut is None else e.get("cuts", 0)
        cap = self.caps[self.k] if cut is None else max(1, self.startup + cut + (300 if cuts else 0))
        self.cut = cut
        self.t0 = t
        self.drv = EpochDriver(self.ctl, e["ev"], self.delays, quiet=self.quiet, cap=cap,
                               commit_on_dir_stp=self.cds, guard=guard, cut_state=cuts)
        self.phase = "run"

    def step(self, t, prev):
        self.skip = 0
        if self.phase == "start":
            self._begin(t)
            upd = self.drv.step(0, None)
            upd["reset"] = 0
            return upd
        if self.phase == "run":
            lt = t - self.t0
            upd = self.drv.step(lt, prev)
            if upd is not None:
                self.skip = self.drv.can_skip(lt, prev)
                return upd
            # epoch over
            d = self.drv
            self.ctl = dict(d.ctl)
            self.done.append(dict(drv=d, t0=self.t0, cut=self.cut, k=self.k))
            if self.k == len(self.epochs) - 1 or (self.cut is None and d.ended != "quiet"):
                return None
            nxt = self.epochs[self.k + 1]
            self.rst_left = max(1, nxt.get("rst", 1))
            self.phase = "reset"
            upd = dict(reset=1, dir=0, nxt=0, di=0, txv=0, txd=0)
            new = dict(self.ctl)
            new.update(nxt.get("set") or {})
            for n, v in new.items():
                if self.ctl[n] != v:
                    upd[n] = v
            self.ctl = new
            self.rst_left -= 1
            return upd
        # reset pulse in progress
        if self.rst_left > 0:
            self.rst_left -= 1
            return {}
        self._begin(t)
        upd = self.drv.step(0, None)
        upd["reset"] = 0
        return upd

    def skipped(self, k):
        self.drv.skipped(k)


class SkipHarness:
    """CycleHarness (same cycle model, same driver protocol) plus fast-forward: after a cycle for which the driver
    leaves `driver.skip = n > 0`, up to n further cycles are ticked without calling the driver, stopping early in the
    first cycle in which one of the `watch` outputs is non-zero; the driver is told the number of cycles skipped
    (`driver.skipped(k)`) and continues with the outputs of the last one."""

    def __init__(self, dut, ins, outs, watch, counter, target, domain="usb", period=1e-6):
        from amaranth.sim import Simulator
        self.in_names = list(ins)
        self.in_sigs = [ins[n] for n in self.in_names]
        self.out_names = list(outs)
        self.out_sigs = [outs[n] for n in self.out_names]
        self.Out = namedtuple("Out", self.out_names)
        self.domain = domain
        self.counter = counter
        self.target = target
        cond = counter >= target
        for n in watch:
            cond = cond | (outs[n] != 0)
        self.cond = cond
        self.sim = Simulator(dut)
        self.sim.add_clock(period, domain=domain)
        self._job = None
        self._first = True
        self.sim.add_testbench(self._tb)

    async def _tb(self, ctx):
        job = self._job
        if job is None:
            return
        in_sigs = dict(zip(self.in_names, self.in_sigs))
        outs = self.out_sigs
        Out = self.Out
        trace = job["trace"]
        dom = self.domain
        driver = job["driver"]
        prev = None
        cur = {}
        t = 0
        nouts = len(outs)
        while t < job["max_cycles"]:
            upd = driver.step(t, prev)
            if upd is None:
                break
            for n, v in upd.items():
                if cur.get(n) != v:
                    ctx.set(in_sigs[n], v)
                    cur[n] = v
            vals = await ctx.tick(dom).sample(*outs, self.counter)
            prev = Out(*[int(v) for v in vals[-nouts - 1:-1]])
            trace.append((t, prev))
            t += 1
            n = getattr(driver, "skip", 0)
            if n > 1 and not any(getattr(prev, w) for w in job["watch"]):
                c0 = int(vals[-1])
                ctx.set(self.target, c0 + n)
                vals = await ctx.tick(dom).sample(*outs, self.counter).until(self.cond)
                k = int(vals[-1]) - c0
                prev = Out(*[int(v) for v in vals[:nouts]])
                t += k
                trace.append((t - 1, prev))
                driver.skipped(k)
        job["cycles"] = t

    def run_driver(self, driver, max_cycles, watch=("do", "stp")):
        """Returns a list of (cycle, outputs); fast-forwarded cycles are represented by their last cycle only."""
        job = dict(driver=driver, max_cycles=max_cycles, trace=[], watch=watch)
        self._job = job
        if not self._first:
            self.sim.reset()
        self._first = False
        self.sim.run()
        return job["trace"]


def make_reset_harness(real):
    """UTMITranslator(ulpi=<record with rst>, handle_clocking=False) inside an explicit `usb` domain with a
    testbench-driven reset.  real=False: start-up wait scaled to SCALED_STARTUP cycles (class constant override)."""
    from amaranth import Elaboratable, Module, Signal, ClockDomain
    from amaranth.hdl.rec import Record
    from luna.gateware.interface.ulpi import UTMITranslator

    if real:
        cls = UTMITranslator
    else:
        class ScaledStartupTranslator(UTMITranslator):
            _CYCLES_1_MILLISECONDS = SCALED_STARTUP
        cls = ScaledStartupTranslator

    rec = Record([("dir", [("i", 1)]), ("nxt", [("i", 1)]), ("data", [("i", 8), ("o", 8), ("oe", 1)]),
                  ("stp", [("o", 1)]), ("rst", [("o", 1)])])
    dut = cls(ulpi=rec, handle_clocking=False)

    class Top(Elaboratable):
        def __init__(self):
            self.reset = Signal()
            self.counter = Signal(32, reset_less=True)      # free-running cycle counter for the fast-forward
            self.target = Signal(32)

        def elaborate(self, platform):
            m = Module()
            m.domains.usb = cd = ClockDomain("usb")
            m.d.comb += cd.rst.eq(self.reset)
            m.d.usb += self.counter.eq(self.counter + 1)
            m.submodules.dut = dut
            return m

    top = Top()
    ins = dict(dir=rec.dir.i, nxt=rec.nxt.i, di=rec.data.i, txd=dut.tx_data, txv=dut.tx_valid, reset=top.reset)
    for n in P.CTL_NAMES:
        ins[n] = getattr(dut, n)
    outs = dict(do=rec.data.o, oe=rec.data.oe, stp=rec.stp.o, txr=dut.tx_ready, busy=dut.busy, phy_rst=rec.rst.o)
    return SkipHarness(top, ins, outs, watch=("do", "stp"), counter=top.counter, target=top.target, domain="usb")
