"""UTMI receive-side waveform construction (family A).

A *packet event* is a dict
    {"bytes": [..], "lead": n>=1, "gaps": [g0, g1, ...], "trail": n>=0, "idle": n>=2}
and is rendered as:  rx_active rises; `lead` cycles later the first byte is presented for one cycle
with rx_valid; byte i+1 follows `gaps[i % len(gaps)]` idle (rx_valid low) cycles after byte i;
`trail` cycles after the last byte rx_active falls (trail == 0: the last byte sits in the final active
cycle); then `idle` cycles of rx_active low.  A packet with no bytes is an aborted/empty activation.

Soundness rules (DESIGN.md §3): rx_valid => rx_active; rx_active rises >= 1 cycle before the first
rx_valid; >= 2 idle cycles between packets.  rx_data carries the generated `noise` value while
rx_valid is low (real PHYs leave stale data on the bus).
"""
from hypothesis import strategies as st


def render(events, noise=0):
    """-> (script, spans): script = list of dict(rx_active, rx_valid, rx_data) per cycle,
    spans[i] = (first_cycle, last_active_cycle) of event i (rx_active high in [first, last])."""
    script = []
    spans = []
    for ev in events:
        start = len(script)
        data = list(ev.get("bytes", []))
        lead = max(1, ev.get("lead", 1))
        gaps = ev.get("gaps") or [0]
        for _ in range(lead):
            script.append(dict(rx_active=1, rx_valid=0, rx_data=noise))
        for i, b in enumerate(data):
            script.append(dict(rx_active=1, rx_valid=1, rx_data=b))
            if i != len(data) - 1:
                for _ in range(gaps[i % len(gaps)]):
                    script.append(dict(rx_active=1, rx_valid=0, rx_data=noise))
        for _ in range(ev.get("trail", 1)):
            script.append(dict(rx_active=1, rx_valid=0, rx_data=noise))
        spans.append((start, len(script) - 1))
        for _ in range(max(2, ev.get("idle", 2))):
            script.append(dict(rx_active=0, rx_valid=0, rx_data=noise))
    return script, spans


def timing(max_gap=6, min_idle=2, max_idle=40):
    """Strategy for the timing part of a packet event."""
    return st.fixed_dictionaries(dict(
        lead=st.integers(1, 4),
        gaps=st.lists(st.integers(0, max_gap), min_size=1, max_size=4),
        trail=st.integers(0, 3),
        idle=st.integers(min_idle, max_idle),
    ))


def event(bytes_strategy, **kw):
    return st.builds(lambda b, t: dict(t, bytes=list(b)), bytes_strategy, timing(**kw))
