"""ULPI 1.1 PHY bus-functional model + closed-loop driver for UTMITranslator-like DUTs (C22, C23, C24).

Protocol rules obeyed by the model (DESIGN.md §3):
  * a DIR rise is followed by one turnaround cycle (data undefined, here a generated filler byte);
  * NXT / DATA driven by the PHY in cycle t depend only on link outputs of cycles < t;
  * DIR and NXT fall together (NXT is never high while DIR is low except to accept link bytes);
  * RxCmd = DIR high (for more than one cycle) & NXT low; receive data = DIR high & NXT high, and only while
    the PHY is in a receive (started by DIR rising together with NXT, or by an RxCmd with RxActive=1);
  * link commands are accepted only with NXT; register data is accepted only with NXT, and a register write
    is committed when STP follows the accepted data byte;
  * the PHY may interrupt any link-driven phase (pending command, register-write data / STP phase) by raising
    DIR; it never raises DIR after it accepted a transmit command (until the STP) nor inside a register read;
  * link bus contents are ignored in a cycle in which DIR is high and in the turnaround cycle after DIR fell.

The model keeps a register file (with the ULPI write/set/clear address triplets) and logs everything it
accepted, so the oracles work on what *the PHY saw*, not on what the DUT believes.
"""

IDLE, CMD, TXD, RWD, RWS, RRT, RRD, BURST = range(8)
STATE_NAMES = ["IDLE", "CMD", "TXD", "RWD", "RWS", "RRT", "RRD", "BURST"]

# ULPI register triplets (write, set, clear) — ULPI 1.1 table 7
_TRIPLET_BASES = (0x04, 0x07, 0x0A, 0x0D, 0x10, 0x16)

FUNC_CTRL = 0x04
OTG_CTRL = 0x0A


def reg_target(addr):
    for b in _TRIPLET_BASES:
        if b <= addr < b + 3:
            return b, addr - b
    return addr, 0


class UlpiPhy:
    """Cycle-level PHY model.  Call ``step(t, link)`` once per cycle; ``link`` is (data_o, stp) sampled in
    cycle t-1 (None for t == 0).  Returns (dir, nxt, data) to drive in cycle t."""

    TRIG_TIMEOUT = 48

    def __init__(self, delays=(0,), commit_on_dir_stp=False):
        self.delays = list(delays) or [0]
        self.di = 0
        self.commit_on_dir_stp = commit_on_dir_stp
        self.state = IDLE
        self.kind = None
        self.cmd = 0
        self.count = 0
        self.dir_prev = 0          # DIR driven in cycle t-1
        self.dir_prev2 = 0
        self.nxt_prev = 0
        self.regs = {FUNC_CTRL: 0x41, OTG_CTRL: 0x06}
        self.cur_tx = None
        self.cur_wr = None
        self.cur_rd = None
        self.rws_overlap = None
        self.burst = None          # armed / running burst dict
        self.burst_pos = 0
        self.burst_age = 0
        self.burst_running = False
        self.chain = False
        # logs
        self.wire = []             # per cycle (dir, nxt, data)
        self.rd_cycles = set()     # cycles whose DIR-high/NXT-low byte is register-read data (not an RxCmd)
        self.txs = []              # transmissions accepted
        self.writes = []           # register write attempts
        self.reads = []
        self.events = []           # (t, what) link-protocol irregularities seen by the PHY
        self.burst_fires = []      # (t, state name interrupted)
        self.busy_last = -1        # last cycle in which the PHY was not idle

    # ------------------------------------------------------------------------------------------
    def _delay(self):
        d = self.delays[self.di % len(self.delays)]
        self.di += 1
        return d

    def arm_burst(self, burst):
        """burst: dict(nxt=0/1, ta=byte, items=[(nxt, data), ...], trig=int)."""
        self.burst = burst
        self.burst_age = 0

    @property
    def burst_pending(self):
        return self.burst is not None

    def idle(self):
        return self.state == IDLE and self.burst is None

    # ------------------------------------------------------------------------------------------
    def _commit(self, wr, u):
        base, op = reg_target(wr["addr"])
        old = self.regs.get(base, 0)
        if op == 0:
            new = wr["data"]
        elif op == 1:
            new = old | wr["data"]
        else:
            new = old & ~wr["data"] & 0xFF
        self.regs[base] = new
        wr["t_commit"] = u
        wr["committed"] = True

    def _observe(self, u, data, stp):
        """Digest what the link drove in cycle u, given what the PHY drove in cycle u."""
        st = self.state
        if self.rws_overlap is not None:
            wr, self.rws_overlap = self.rws_overlap, None
            wr["dir_in_stp"] = True
            if stp and self.commit_on_dir_stp:
                self._commit(wr, u)
            else:
                wr["aborted"] = "dir-in-stp-cycle"
            return
        if st == IDLE:
            if self.dir_prev == 0 and self.dir_prev2 == 0 and data != 0:
                top = data >> 6
                if top == 0:
                    self.events.append((u, "reserved-command-%02x" % data))
                    return
                self.state = CMD
                self.kind = {1: "tx", 2: "regw", 3: "regr"}[top]
                self.cmd = data
                self.cmd_t = u
                self.count = self._delay()
            return
        if st == CMD:
            if not self.nxt_prev:
                if data != self.cmd:
                    self.events.append((u, "command-changed-before-accept %02x->%02x" % (self.cmd, data)))
                    self.state = IDLE
                    self._observe_idle_again(u, data)
                return
            # accept cycle: the PHY takes whatever command byte is on the bus at this clock edge
            if data != self.cmd:
                self.events.append((u, "command-changed-in-accept-cycle %02x->%02x" % (self.cmd, data)))
                if data == 0 or (data >> 6) != (self.cmd >> 6):
                    self.state = IDLE
                    return
                self.cmd = data
            if self.kind == "tx":
                self.cur_tx = dict(cmd=data, t_seen=self.cmd_t, t_cmd=u, bytes=[], stp_t=None, stp_data=None)
                self.txs.append(self.cur_tx)
                self.state = TXD
                self.count = self._delay()
            elif self.kind == "regw":
                self.cur_wr = dict(addr=data & 0x3F, t_seen=self.cmd_t, t_cmd=u, data=None, t_data=None,
                                   t_commit=None, committed=False, aborted=None)
                self.writes.append(self.cur_wr)
                self.state = RWD
                self.count = self._delay()
            else:
                self.cur_rd = dict(addr=data & 0x3F, t_cmd=u, value=None, t_data=None)
                self.reads.append(self.cur_rd)
                self.state = RRT
            return
        if st == TXD:
            tx = self.cur_tx
            if stp:
                tx["stp_t"] = u
                tx["stp_data"] = data
                self.state = IDLE
                self.cur_tx = None
            elif self.nxt_prev:
                tx["bytes"].append((u, data))
            return
        if st == RWD:
            wr = self.cur_wr
            if stp:
                self.events.append((u, "stp-before-register-data"))
                wr["aborted"] = "early-stp"
                self.state = IDLE
            elif self.nxt_prev:
                wr["data"] = data
                wr["t_data"] = u
                self.state = RWS
            return
        if st == RWS:
            wr = self.cur_wr
            if stp:
                self._commit(wr, u)
            else:
                self.events.append((u, "missing-stp-after-register-data"))
                wr["aborted"] = "missing-stp"
            self.state = IDLE
            self.cur_wr = None
            return
        if st == RRT:
            self.state = RRD
            return
        if st == RRD:
            self.state = IDLE
            if self.burst is not None and self.burst.get("chain") and self.burst["items"]:
                # register read followed immediately by RxCmds / a receive: DIR simply stays high
                self.state = BURST
                self.burst_running = True
                self.burst_pos = 0
                self.chain = True
                self.burst_fires.append((u + 1, "RRD-chain"))
            return
        # BURST: nothing to learn from the link

    def _observe_idle_again(self, u, data):
        if data != 0 and (data >> 6):
            self.state = CMD
            self.kind = {1: "tx", 2: "regw", 3: "regr"}[data >> 6]
            self.cmd = data
            self.cmd_t = u
            self.count = self._delay()

    # ------------------------------------------------------------------------------------------
    def _trigger_ok(self):
        b = self.burst
        trig = b.get("trig", 0)
        if self.burst_age >= self.TRIG_TIMEOUT or trig == 0:
            return True
        st = self.state
        if trig == 1:
            return st == CMD and self.kind == "regw"
        if trig == 2:
            return st == RWD
        if trig == 3:
            return st == RWS
        if trig == 4:
            return st == CMD and self.kind == "tx"
        if trig == 5:
            return st == CMD and self.count == 0
        if trig == 6:
            return st == RWD and self.count == 0
        if trig == 7:
            return st == CMD
        if trig == 8:
            return st == CMD and self.count == 0
        return True

    def step(self, t, link):
        if link is not None:
            self._observe(t - 1, link[0], link[1])
        st = self.state
        d, n, x = 0, 0, 0
        if st == BURST and self.burst_running:
            items = self.burst["items"]
            if self.burst_pos < len(items):
                n, x = items[self.burst_pos]
                d = 1
                self.burst_pos += 1
            else:
                self.burst = None
                self.burst_running = False
                self.chain = False
                self.state = st = IDLE
        elif self.burst is not None and st in (IDLE, CMD, RWD, RWS) and \
                not (self.burst.get("chain") and st == CMD and self.kind == "regr"):
            self.burst_age += 1
            if self._trigger_ok():
                self.burst_fires.append((t, STATE_NAMES[st] + (":" + self.kind if st == CMD else "")))
                if st == RWS:
                    self.rws_overlap = self.cur_wr
                    self.cur_wr = None
                elif st == RWD:
                    self.cur_wr["aborted"] = "dir-before-data"
                    self.cur_wr = None
                self.state = BURST
                self.burst_running = True
                self.burst_pos = 0
                d, n, x = 1, self.burst["nxt"], self.burst["ta"]
                st = None
        if st == CMD or st == RWD:
            if self.count == 0:
                n = 1
            else:
                self.count -= 1
        elif st == TXD:
            if self.count == 0:
                n = 1
                self.count = self._delay()
            else:
                self.count -= 1
        elif st == RRT:
            d, n, x = 1, 0, 0xEE
        elif st == RRD:
            d, n = 1, 0
            x = self.regs.get(reg_target(self.cur_rd["addr"])[0], 0)
            self.cur_rd["value"] = x
            self.cur_rd["t_data"] = t
            self.rd_cycles.add(t)
        self.dir_prev2 = self.dir_prev
        self.dir_prev = d
        self.nxt_prev = n
        self.wire.append((d, n, x))
        if self.state != IDLE or d:
            self.busy_last = t
        return d, n, x


# ================================================================================================
# Burst construction from a compact JSON description
# ================================================================================================

def build_burst(spec):
    """spec (JSON-able):
        {"nxt": 0/1, "ta": byte, "trig": n, "chain": 0/1,
         "segs": [ {"k": "st", "v": rxcmd byte (RxActive forced 0), "n": repeat}
                   {"k": "pk", "v": status bits (RxActive forced 1), "n": lead RxCmds (>=1),
                    "b": [[byte, gap, gapcmd], ...], "end": 0 (fall through: DIR drop / next seg) | 1 (RxCmd stop),
                    "ev": stop RxCmd status bits} ]}
    A burst that starts with NXT must begin with a packet segment (forced here by construction: otherwise the
    NXT flag is dropped).  Data cycles only occur inside packet segments."""
    items = []
    segs = spec["segs"]
    nxt = 1 if (spec.get("nxt") and segs and segs[0]["k"] == "pk" and not spec.get("chain")) else 0
    for s in segs:
        if s["k"] == "st":
            v = s["v"] & ~0x10 & 0xFF
            # bits 5:4 = 10 is "host disconnect" (RxActive = 0); 11/01 carry RxActive = 1
            items += [(0, v)] * max(1, s["n"])
        else:
            v = (s["v"] | 0x10) & 0xFF
            items += [(0, v)] * max(1, s["n"])
            for byte, gap, gapcmd in s["b"]:
                if gap:
                    items += [(0, (gapcmd | 0x10) & 0xFF)] * gap
                items.append((1, byte & 0xFF))
            if s.get("end"):
                items += [(0, s.get("ev", 0) & ~0x10 & 0xFF)] * max(1, s.get("en", 1))
    return dict(nxt=nxt, ta=spec.get("ta", 0) & 0xFF, trig=spec.get("trig", 0), chain=bool(spec.get("chain")),
                items=items)


# ================================================================================================
# Reference view of the PHY-side wire trace (what a ULPI link must conclude from DIR/NXT/DATA)
# ================================================================================================

def analyse_wire(wire, rd_cycles=()):
    """Returns dict with
         R[t]   PHY receive state after cycle t (1 between a receive start and its end)
         L[t]   most recent RxCmd byte up to and including cycle t (0 initially)
         packets: list of lists of (t, byte): data presented with NXT while DIR high, grouped by receive
         cmds:  list of (t, byte)"""
    R, L = [], []
    r, last = 0, 0
    packets, cmds = [], []
    cur = None
    pd = 0
    for t, (d, n, x) in enumerate(wire):
        if not d:
            if r:
                r = 0
            cur = None
        elif not pd:
            # turnaround cycle; DIR rising together with NXT announces a receive
            if n:
                r = 1
                cur = []
                packets.append(cur)
        elif t in rd_cycles:
            pass
        elif n:
            if r:
                cur.append((t, x))
            # data outside a receive is never generated
        else:
            cmds.append((t, x))
            last = x
            if x & 0x10:
                if not r:
                    r = 1
                    cur = []
                    packets.append(cur)
            else:
                r = 0
                cur = None
        pd = d
        R.append(r)
        L.append(last)
    return dict(R=R, L=L, packets=packets, cmds=cmds)


# ================================================================================================
# Closed-loop driver: PHY model + UTMI transmit source + control-input schedule
# ================================================================================================

CTL_NAMES = ("xcvr_select", "term_select", "op_mode", "suspend", "id_pullup", "dp_pulldown", "dm_pulldown",
             "chrg_vbus", "dischrg_vbus", "use_external_vbus_indicator")
CTL_WIDTH = dict(xcvr_select=2, op_mode=2)


def func_ctrl_value(c):
    """ULPI 1.1 Function Control: XcvrSelect[1:0] TermSelect[2] OpMode[4:3] Reset[5] SuspendM[6]."""
    return (c["xcvr_select"] & 3) | (c["term_select"] & 1) << 2 | (c["op_mode"] & 3) << 3 | \
        ((~c["suspend"]) & 1) << 6


def otg_ctrl_value(c):
    """ULPI 1.1 OTG Control: IdPullup[0] DpPulldown[1] DmPulldown[2] DischrgVbus[3] ChrgVbus[4]
    DrvVbus[5] DrvVbusExternal[6] UseExternalVbusIndicator[7]."""
    return (c["id_pullup"] & 1) | (c["dp_pulldown"] & 1) << 1 | (c["dm_pulldown"] & 1) << 2 | \
        (c["dischrg_vbus"] & 1) << 3 | (c["chrg_vbus"] & 1) << 4 | (c["use_external_vbus_indicator"] & 1) << 7


class TranslatorDriver:
    """CycleHarness driver.  Events are armed sequentially: event i is armed ``gap`` cycles after event i-1
    *fired* (tx: tx_valid raised; rx: DIR raised; ctl: inputs changed), so gap 0 gives same-cycle coincidences.
    After the last event the driver waits for ``quiet`` consecutive cycles in which the PHY is idle, no
    transmission is pending and no input changed, then stops (or stops at ``cap`` cycles).
    A "tx" or "ctl" event carrying ``settle: 1`` additionally waits until no transmission is in progress and the
    translator's ``busy`` has been low for 6 consecutive cycles (register writes caused by earlier changes done)."""

    def __init__(self, init_ctl, events, delays, quiet, cap, commit_on_dir_stp=False, settle=False):
        self.phy = UlpiPhy(delays, commit_on_dir_stp)
        self.ctl = dict(init_ctl)
        self.events = events
        self.ei = 0
        self.armed_at = 0 if not settle else None
        self.settle = settle
        self.quiet = quiet
        self.cap = cap
        self.ctl_log = [(0, dict(self.ctl))]       # (t, values from t on)
        self.tx = None                             # active transmission dict
        self.tx_log = []                           # dict(bytes, t_start, ready=[t...], t_end)
        self.tx_wait = None
        self.quiet_count = 0
        self.last_fire = 0
        self.ended = None
        self.stalled = None
        self.sync_wait = 0
        self.ctl_sync_hits = []
        self.idle_run = 0
        self.tx_free_at = 0
        self.txv = []                              # tx_valid driven in each cycle

    def _sync_ok(self, sync):
        p = self.phy
        if sync == 0 or self.sync_wait >= 48:
            return True
        if sync == 1:
            return p.state == CMD and p.kind == "regw"
        if sync == 2:
            return p.state == RWD
        if sync == 3:
            return p.state == RWS
        if sync == 4:
            return p.state == CMD and p.kind == "tx"
        if sync == 5:
            return p.state == TXD
        return True

    def step(self, t, prev):
        upd = {}
        if t == 0:
            upd.update(self.ctl)
            upd.update(txv=0, txd=0)
        link = None if prev is None else (prev.do, prev.stp)
        # ---- UTMI transmit source: advance on tx_ready seen in the previous cycle ----
        tx = self.tx
        if tx is not None and prev is not None and prev.txr:
            tx["ready"].append(t - 1)
            tx["pos"] += 1
            if tx["pos"] >= len(tx["bytes"]):
                tx["t_end"] = t
                self.tx_free_at = t + 1            # tx_valid is low for at least one cycle between packets
                self.tx = tx = None
                upd["txv"] = 0
                upd["txd"] = 0
            else:
                upd["txd"] = tx["bytes"][tx["pos"]]
        if prev is not None:
            self.idle_run = 0 if prev.busy else self.idle_run + 1
        if self.settle and self.armed_at is None and prev is not None:
            if self.idle_run >= 6:
                self.armed_at = t
        # ---- fire armed events ----
        changed = False
        while self.ei < len(self.events) and self.armed_at is not None:
            ev = self.events[self.ei]
            if t < self.armed_at + ev["gap"]:
                break
            k = ev["k"]
            if ev.get("settle") and k in ("ctl", "tx") and \
                    (self.tx is not None or t < self.tx_free_at or self.idle_run < 6):
                # per-event settling (C23 mixed-mode cases): fire only when no transmission is in progress and the
                # translator has not been busy for 6 cycles, i.e. earlier register writes / STP are over
                break
            if k == "ctl":
                if not self._sync_ok(ev.get("sync", 0)):
                    self.sync_wait += 1
                    break
                new = dict(self.ctl)
                new.update(ev["set"])
                if new != self.ctl:
                    changed = True
                    for n, v in ev["set"].items():
                        upd[n] = v
                    self.ctl = new
                    self.ctl_log.append((t, dict(new)))
                    self.ctl_sync_hits.append((t, STATE_NAMES[self.phy.state]))
                    self.idle_run = -2             # the write this triggers shows on `busy` one..two cycles later
            elif k == "tx":
                if self.tx is not None or t < self.tx_free_at:
                    break
                if not self._sync_ok(ev.get("sync", 0)):
                    self.sync_wait += 1
                    break
                self.tx = dict(bytes=list(ev["bytes"]), t_start=t, ready=[], pos=0, t_end=None,
                               op_mode=self.ctl["op_mode"])
                self.tx_log.append(self.tx)
                upd["txv"] = 1
                upd["txd"] = ev["bytes"][0]
            else:  # rx burst
                if self.phy.burst_pending:
                    break
                self.phy.arm_burst(build_burst(ev))
            self.sync_wait = 0
            self.ei += 1
            self.armed_at = t
            self.last_fire = t
        self.txv.append(1 if self.tx is not None else 0)
        # ---- PHY ----
        d, n, x = self.phy.step(t, link)
        upd["dir"] = d
        upd["nxt"] = n
        upd["di"] = x
        # ---- termination ----
        done_events = self.ei >= len(self.events)
        if done_events and self.phy.idle() and self.tx is None and not changed and \
                (link is None or link[0] == 0):
            self.quiet_count += 1
        else:
            self.quiet_count = 0
        if self.quiet_count > self.quiet:
            self.ended = "quiet"
            return None
        if t >= self.cap:
            self.ended = "cap"
            return None
        return upd


# ================================================================================================
# Harness factories (import LUNA lazily: after fork, from the tree under test)
# ================================================================================================

def make_translator_harness():
    """UTMITranslator(ulpi=<record without rst/clk>, handle_clocking=False) in a CycleHarness."""
    from amaranth.hdl.rec import Record
    from luna.gateware.interface.ulpi import UTMITranslator
    from lunaverif.simkit import CycleHarness
    rec = Record([("dir", [("i", 1)]), ("nxt", [("i", 1)]), ("data", [("i", 8), ("o", 8), ("oe", 1)]),
                  ("stp", [("o", 1)])])
    dut = UTMITranslator(ulpi=rec, handle_clocking=False)
    ins = dict(dir=rec.dir.i, nxt=rec.nxt.i, di=rec.data.i, txd=dut.tx_data, txv=dut.tx_valid)
    for n in CTL_NAMES:
        ins[n] = getattr(dut, n)
    outs = dict(do=rec.data.o, oe=rec.data.oe, stp=rec.stp.o, txr=dut.tx_ready, busy=dut.busy,
                rxd=dut.rx_data, rxv=dut.rx_valid, rxa=dut.rx_active,
                line_state=dut.line_state, vbus_valid=dut.vbus_valid, session_valid=dut.session_valid,
                session_end=dut.session_end, rx_error=dut.rx_error, host_disconnect=dut.host_disconnect,
                id_digital=dut.id_digital)
    return CycleHarness(dut, ins, outs, domain="usb")


def decode_rxcmd(v):
    """ULPI 1.1 table 3.8.1.2 — line state [1:0], VBUS state [3:2], RxEvent [5:4], ID [6]."""
    vb = (v >> 2) & 3
    return dict(line_state=v & 3, vbus_valid=int(vb == 3), session_valid=int(vb == 2), session_end=int(vb == 0))
