"""Harness + host BFM for the complete USB3LinkLayer (LTSSM + TS unit + header receiver / transmitter + timers, wired
as luna/gateware/usb/usb3/link/layer.py wires them) on top of a mock physical layer (C38, link-layer level).

Cost model.  Power-on training contains Polling.RxEQ: 65536 TSEQ sets = 524288 cycles (hard-wired in TSTransceiver),
about 20..50 s of simulation -- unaffordable per case.  So the simulator is elaborated and taken through the fixed,
input-free part of power-on (Rx.Detect, Polling.LFPS, the TSEQ burst, up to the first TS1 word of Polling.Active)
exactly ONCE (`LayerHarness.prepare()`); every case then runs in a fork()ed child of that prepared process, which
continues the simulation from the identical state and sends its trace back through a pipe.  A case is therefore still a
pure function of (case, code under test): nothing of one case can reach another one, and a replay does the same.

Cycle model of the per-case part = simkit.CycleHarness.run_driver: driver.step(t, prev) -> inputs of cycle t, given the
outputs sampled at the edge ending cycle t-1.

Host BFM (`Host`): the link partner of a device, legal except for the named recovery triggers:
  * training: TS1 sets until the device answers with TS2, (hot reset: TS2 sets with the Reset bit until the device's
    TS2 carry it too, plus a generated number more), TS2 sets until the device sends logical idle, idle until `trained`;
  * U0: after a generated delay its advertisement LGOOD(7) LCRD A-D, then header packets numbered from <what the
    reference model says the device must have advertised> + 1, idle between them;
  * leaving U0: the host starts Recovery itself (TS1), or provokes the device into it with a header carrying a wrong
    sequence number / an LCRD with a wrong letter / an LGOOD with a wrong number, and answers the device's TS1.
"""
import gc
import json
import os
import sys
import traceback
from collections import deque, namedtuple

from lunaverif.core import HarnessError
from lunaverif.ref import g4_usb3 as R

TSEQ_BURST_CYCLES = 65536 * 8

COMS = (0xBCBCBCBC, 0xF)


def ts_set(ident, config=0):
    """A TS1/TS2 ordered set as four words: COM x4 | reserved, link functionality, 2x identifier | identifier x8."""
    i4 = ident * 0x01010101
    return [COMS, ((ident << 24) | (ident << 16) | ((config & 0xFF) << 8), 0), (i4, 0), (i4, 0)]


TS1 = ts_set(0x4A)
TS2 = ts_set(0x45)
TS2_RESET = ts_set(0x45, 0x01)

OUT_NAMES = ["valid", "data", "ctrl", "trained", "in_reset", "ready", "hvalid", "h0", "h1", "h2", "hseq"]
Out = namedtuple("Out", OUT_NAMES)


class MockPhysicalLayer:
    """The signals USB3LinkLayer touches on its physical layer."""

    def __init__(self):
        from amaranth import Signal
        from luna.gateware.usb.stream import USBRawSuperSpeedStream
        self.source = USBRawSuperSpeedStream()
        self.raw_source = USBRawSuperSpeedStream()
        self.sink = USBRawSuperSpeedStream()
        for name in ("ready", "lfps_reset_detected", "vbus_present", "perform_rx_detection", "link_partner_detected",
                     "no_link_partner_detected", "tx_electrical_idle", "tx_ones_zeros", "engage_terminations",
                     "invert_rx_polarity", "train_equalizer", "lfps_polling_detected", "send_lfps_polling",
                     "enable_scrambling", "lfps_ping_detected", "can_send_skp"):
            setattr(self, name, Signal(name=f"phy_{name}"))
        self.tx_deemph = Signal(2)
        self.lfps_cycles_sent = Signal(16)


class LayerHarness:
    def __init__(self):
        from amaranth.sim import Simulator
        from luna.gateware.usb.usb3.link.layer import USB3LinkLayer
        self.phy = MockPhysicalLayer()
        self.dut = USB3LinkLayer(physical_layer=self.phy)
        self.sim = Simulator(self.dut)
        self.sim.add_clock(8e-9, domain="ss")
        self.sim.add_testbench(self._tb)
        self.prepared = False
        self.prep_error = None
        self.job = None
        self.trace = None

    # ------------------------------------------------------------------ testbench
    async def _tb(self, ctx):
        phy, dut = self.phy, self.dut
        outs = [phy.sink.valid, phy.sink.data, phy.sink.ctrl, dut.trained, dut.in_reset, dut.ready,
                dut.header_source.valid, dut.header_source.header.dw0, dut.header_source.header.dw1,
                dut.header_source.header.dw2, dut.header_source.header.sequence_number]
        # ---- fixed power-on prefix (no generated input can act here: the host has not been allowed to speak yet)
        ctx.set(phy.sink.ready, 1)
        ctx.set(phy.ready, 1)
        ctx.set(phy.vbus_present, 1)
        await ctx.tick("ss").repeat(4)
        ctx.set(phy.link_partner_detected, 1)             # Rx.Detect -> Polling.LFPS -> Polling.RxEQ
        ctx.set(phy.lfps_polling_detected, 1)
        ctx.set(phy.lfps_cycles_sent, 64)
        await ctx.tick("ss").repeat(8)
        ctx.set(phy.lfps_cycles_sent, 128)
        await ctx.tick("ss").repeat(8)
        ctx.set(phy.link_partner_detected, 0)
        ctx.set(phy.lfps_polling_detected, 0)
        await ctx.tick("ss").repeat(TSEQ_BURST_CYCLES - 64)
        for _ in range(400):                              # ... until the device's first TS1 word (Polling.Active)
            _, _, v, d, c = await ctx.tick("ss").sample(phy.sink.valid, phy.sink.data, phy.sink.ctrl)
            if v and c == 0 and (d & 0xFFFF00FF) == 0x4A4A0000:
                break
        else:
            self.prep_error = "the device did not start sending TS1 after its TSEQ burst"
        self.prepared = True
        while self.job is None:                           # parked here; only a fork()ed child ever gets a job
            await ctx.tick("ss")
        # ---- the case
        driver, max_cycles = self.job
        streams = (phy.source, phy.raw_source)
        trace = self.trace = []
        cur = {}
        prev = None
        for t in range(max_cycles):
            upd = driver.step(t, prev)
            if upd is None:
                break
            for n, v in upd.items():
                if cur.get(n) == v:
                    continue
                cur[n] = v
                if n == "sv":
                    for s in streams:
                        ctx.set(s.valid, v)
                elif n == "sd":
                    for s in streams:
                        ctx.set(s.data, v)
                elif n == "sc":
                    for s in streams:
                        ctx.set(s.ctrl, v)
                elif n == "hready":
                    ctx.set(dut.header_source.ready, v)
                elif n == "sready":
                    ctx.set(phy.sink.ready, v)
            vals = await ctx.tick("ss").sample(*outs)
            prev = Out(*[int(v) for v in vals[-len(outs):]])
            trace.append(prev)

    # ------------------------------------------------------------------ API
    def prepare(self):
        """Elaborate and run the input-free power-on prefix (once per process tree)."""
        if self.prepared:
            return
        while not self.prepared:
            if not self.sim.advance():
                raise HarnessError("simulation ended during the power-on prefix")
        if self.prep_error:
            raise HarnessError(self.prep_error)
        gc.collect()
        gc.freeze()                     # keep the collector from touching (= copying, after fork) the simulator's pages

    def run_case(self, make_driver, max_cycles):
        """Run one case in a fork()ed child that continues from the prepared state.
        make_driver() -> driver (built in the child); returns (trace as list of Out, driver.report())."""
        self.prepare()
        r, w = os.pipe()
        sys.stdout.flush()
        sys.stderr.flush()
        pid = os.fork()
        if pid == 0:
            code = 0
            try:
                gc.disable()            # short-lived child: a collection would only copy-on-write the whole heap
                os.close(r)
                try:
                    driver = make_driver()
                    self.job = (driver, max_cycles)
                    self.sim.run()
                    payload = dict(trace=[list(o) for o in self.trace], report=driver.report())
                except BaseException:
                    payload = dict(error=traceback.format_exc())
                with os.fdopen(w, "w") as f:
                    json.dump(payload, f)
            except BaseException:
                code = 1
            finally:
                os._exit(code)
        os.close(w)
        with os.fdopen(r) as f:
            text = f.read()
        os.waitpid(pid, 0)
        if not text:
            raise HarnessError("case child process died without a result")
        payload = json.loads(text)
        if "error" in payload:
            raise HarnessError("case child process raised:\n" + payload["error"])
        return [Out(*o) for o in payload["trace"]], payload["report"]


# =========================================================================================== host BFM
class Host:
    """Closed-loop host.  case["segs"]: one entry per U0 period (see c38.layer_strategy)."""

    STUCK = 2500          # cycles a training phase may last before the run is abandoned

    def __init__(self, case):
        self.case = case
        self.segs = case["segs"]
        self.hpat = list(case.get("hready") or [1])
        if not any(self.hpat):
            self.hpat.append(1)
        self.si = 0
        self.txq = deque()
        self.phase = "ts1"                 # the device is in Polling.Active when the case starts
        self.phase_t0 = 0
        self.kind_seen = set()             # what the device transmitted since the phase started
        self.idle_run = 0
        self.trained = 0
        self.hot_left = None
        self.ts1_left = None
        self.u0_step = None
        self.wait = 0
        self.hdr_i = 0
        # ---- reference model of what the device's header receiver has received (the host's own bookkeeping)
        self.last_rx = 7                   # "last received sequence number": 7 = none since power-on / USB reset
        self.reset_in_this_recovery = False
        # ---- logs
        self.periods = []                  # dict(up, down, expect_adv, reset_before, sent=[dict], trigger, seg)
        self.cur = None
        self.sent_words = []               # (t, data, ctrl) of non-idle words the host sent (debug)
        self.stuck = None
        self.done = False
        self.tail = 0
        self.first_period = True
        self.lc_pending = False            # the device's previous word was LCSTART
        self.credits = 0                   # header buffers the device has advertised / returned and we have not used
        self.dev_adv = False               # the device's LGOOD advertisement has arrived in this U0 period
        self.starved_since = None

    # ------------------------------------------------------------------ helpers
    def _seg(self):
        return self.segs[min(self.si, len(self.segs) - 1)]

    def _enter(self, phase, t):
        self.phase = phase
        self.phase_t0 = t
        self.kind_seen = set()

    def _observe(self, t, prev):
        if prev is None:
            return
        if prev.valid:
            d, c = prev.data, prev.ctrl
            if self.lc_pending:
                self.lc_pending = False
                dec = R.lc_decode(d, c)
                if dec is not None and self.trained:
                    if dec[0] == R.LGOOD:
                        self.dev_adv = True
                    elif dec[0] == R.LCRD and self.dev_adv:
                        self.credits = min(4, self.credits + 1)
            elif (d, c) == R.LCSTART:
                self.lc_pending = True
            if (d, c) == (0, 0):
                self.idle_run += 1
            else:
                self.idle_run = 0
                if c == 0 and (d & 0xFFFF00FF) == 0x4A4A0000:
                    self.kind_seen.add("TS1")
                elif c == 0 and (d & 0xFFFF00FF) == 0x45450000:
                    self.kind_seen.add("TS2R" if d & 0x100 else "TS2")
        if prev.trained and not self.trained:
            self._link_up(t - 1)
        elif self.trained and not prev.trained:
            self._link_down(t - 1)
        self.trained = prev.trained

    def _link_up(self, t):
        seg = self._seg()
        self.cur = dict(up=t, down=None, expect_adv=self.last_rx, reset_before=self.reset_in_this_recovery or
                        self.first_period, hot=self.reset_in_this_recovery, sent=[], trigger=None, trigger_at=None,
                        seg=self.si, adv_at=None)
        self.first_period = False
        self.periods.append(self.cur)
        self.reset_in_this_recovery = False
        self.u0_step = "adv-wait"
        self.credits = 0
        self.dev_adv = False
        self.starved_since = None
        self.wait = seg["adv_delay"]
        self.hdr_i = 0
        self._enter("u0", t)

    def _link_down(self, t):
        if self.cur is not None:
            self.cur["down"] = t
        if self.phase == "u0":
            # the device left U0 by itself: answer its Recovery like any host (the oracle decides whether it was due)
            self.txq.clear()
            self.si += 1
            self._enter("ts1", t)

    # ------------------------------------------------------------------ what to send next
    def _refill(self, t):
        ph = self.phase
        seg = self._seg()
        if ph == "ts1":
            # TS1 until the device, out of U0, answers with TS2 (it needs 8 of ours and a burst of its own)
            if "TS2" in self.kind_seen or "TS2R" in self.kind_seen:
                if seg.get("hot"):
                    self.hot_left = None
                    self._enter("ts2r", t)
                else:
                    self._enter("ts2", t)
                return self._refill(t)
            self.txq.extend(TS1)
        elif ph == "ts2r":
            # hot reset: TS2 with the Reset bit until the device's own TS2 carry it, then hot_extra more sets
            self.reset_in_this_recovery = True
            self.last_rx = 7                              # a hot reset is a USB reset: numbering starts afresh
            if self.hot_left is None and "TS2R" in self.kind_seen:
                self.hot_left = seg.get("hot_extra", 8)
            if self.hot_left is not None:
                if self.hot_left <= 0:
                    self._enter("ts2", t)
                    return self._refill(t)
                self.hot_left -= 1
            self.txq.extend(TS2_RESET)
        elif ph == "ts2":
            if self.idle_run > 8:
                self._enter("idle", t)
                return self._refill(t)
            self.txq.extend(TS2)
        elif ph == "idle":
            self.txq.append(R.IDLE)
        elif ph == "u0":
            self._u0(t, seg)
        if not self.txq:
            self.txq.append(R.IDLE)

    def _u0(self, t, seg):
        st = self.u0_step
        if self.wait > 0:
            self.wait -= 1
            return
        if st == "adv-wait":
            self.cur["adv_at"] = t
            self.txq.extend(R.lc_words(R.LGOOD, 7))
            for k in range(4):
                for _ in range(seg.get("adv_gap", 0)):
                    self.txq.append(R.IDLE)
                self.txq.extend(R.lc_words(R.LCRD, k))
            self.u0_step = "hdrs"
            self.wait = seg.get("post_adv", 0)
        elif st == "hdrs":
            hs = seg["hdrs"]
            if self.hdr_i >= len(hs):
                self.u0_step = "down"
                # (a wrong link command acts within 3 cycles: keep the last header clear of the edge)
                self.wait = seg["pre_down"] if seg["down"] in ("ts1", "badseq") else max(4, seg["pre_down"])
                return
            if self.credits <= 0:
                # a host sends a header only into a buffer the device has advertised; give up on the rest of this
                # period's headers if no credit turns up (the oracle judges the advertisement / credits separately)
                if self.starved_since is None:
                    self.starved_since = t
                if t - self.starved_since > 300:
                    self.cur["starved"] = True
                    self.hdr_i = len(hs)
                return
            self.starved_since = None
            self.credits -= 1
            gap, dw0, dw1, dw2 = hs[self.hdr_i]
            self.hdr_i += 1
            seq = (self.last_rx + 1) & 7
            dw0 = (dw0 & ~0x1F & 0xFFFFFFFF) | R.TYPE_TP                  # a transaction packet: no payload follows
            words = R.header_words(dw0, dw1, dw2, seq)
            self.cur["sent"].append(dict(seq=seq, dw0=dw0, dw1=dw1, dw2=dw2, start=t + len(self.txq),
                                         end=t + len(self.txq) + 4, good=True))
            self.txq.extend(words)
            self.last_rx = seq
            self.wait = gap
        elif st == "down":
            if self.si >= len(self.segs) - 1:
                self.u0_step = "tail"                     # last period: no more link-downs
                self.tail = 60
                return
            kind = seg["down"]
            self.cur["trigger"] = kind
            self.cur["trigger_at"] = t
            if kind == "ts1":
                self.si += 1
                self._enter("ts1", t)
                return self._refill(t)
            if kind == "badseq":
                seq = (self.last_rx + 1 + 1 + seg.get("delta", 0) % 7) & 7       # never the expected number
                words = R.header_words(R.TYPE_TP, 0, 0, seq)
                self.cur["sent"].append(dict(seq=seq, dw0=R.TYPE_TP, dw1=0, dw2=0, start=t, end=t + 4, good=False))
                self.txq.extend(words)
            elif kind == "badlcrd":
                self.txq.extend(R.lc_words(R.LCRD, 1 + seg.get("delta", 0) % 3))  # A is the letter due
            elif kind == "badlgood":
                # the device has sent no header since our LGOOD(7): the only number that could ever be due next is 0
                self.txq.extend(R.lc_words(R.LGOOD, 1 + seg.get("delta", 0) % 7))
            self.u0_step = "await-down"
            self.wait = 0
        elif st == "await-down":
            # the device should start Recovery; if it does not within 150 cycles the host starts it
            if t - self.cur["trigger_at"] > 150:
                self.cur["trigger"] += "+host-ts1"
                self.si += 1
                self._enter("ts1", t)
                return self._refill(t)
        elif st == "tail":
            self.tail -= 1
            if self.tail <= 0:
                self.done = True

    # ------------------------------------------------------------------ driver entry point
    def step(self, t, prev):
        self._observe(t, prev)
        if self.done:
            return None
        if self.phase != "u0" and t - self.phase_t0 > self.STUCK:
            self.stuck = f"training phase '{self.phase}' entered in cycle {self.phase_t0} did not finish by cycle {t}"
            return None
        if not self.txq:
            self._refill(t)
        if self.done:
            return None
        d, c = self.txq.popleft()
        if (d, c) != R.IDLE:
            self.sent_words.append((t, d, c))
        return dict(sv=1, sd=d, sc=c, hready=self.hpat[t % len(self.hpat)], sready=1)

    def report(self):
        return dict(periods=self.periods, stuck=self.stuck, done=self.done, phase=self.phase, si=self.si)
