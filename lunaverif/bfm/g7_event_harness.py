"""Event-list harness for long-timescale blocks (C19): piecewise-constant inputs driven with
``tick().repeat(n)``, outputs recorded only when they change.

    h = EventHarness(dut, ins={...}, outs={...}, domain="usb")
    log = h.run([(dur, {"name": value, ...}), ...])

Each event applies its input changes at the start of a cycle and then lasts ``dur`` cycles (dur >= 1).  The
result is a list of (cycle, Out) entries: the outputs held that value from ``cycle`` until the next entry.
"Output in cycle c" means f(state_c, inputs_c), the value the DUT's own flip-flops see at the clock edge ending
cycle c — the same cycle model as lunaverif.simkit.CycleHarness (checked against it by ``self_check``).

The cycle number is read from a free-running counter placed next to the DUT (public simulator API only); the
sampler is a separate testbench process woken by ``changed()`` of the observed outputs, so one-cycle strobes are recorded.  One elaborated simulator is reused for every case.
"""

import warnings
from collections import namedtuple

from amaranth import Elaboratable, Module, Signal
from amaranth.sim import Simulator, BrokenTrigger

warnings.filterwarnings("ignore", category=RuntimeWarning)


class _WithCounter(Elaboratable):
    def __init__(self, dut, domain):
        self.dut = dut
        self.domain = domain
        self.cycle = Signal(32)

    def elaborate(self, platform):
        m = Module()
        m.submodules.dut = self.dut
        m.d[self.domain] += self.cycle.eq(self.cycle + 1)
        return m


class EventHarness:
    def __init__(self, dut, ins, outs, domain="usb", period=1e-6):
        self.top = _WithCounter(dut, domain)
        self.in_names = list(ins)
        self.in_sigs = dict(ins)
        self.out_names = list(outs)
        self.out_sigs = [outs[n] for n in self.out_names]
        self.Out = namedtuple("Out", self.out_names)
        self.domain = domain
        self.sim = Simulator(self.top)
        self.sim.add_clock(period, domain=domain)
        self._job = None
        self._first = True
        self.sim.add_testbench(self._stim)
        self.sim.add_testbench(self._sampler, background=True)

    async def _stim(self, ctx):
        job = self._job
        if job is None:
            return
        dom = self.domain
        sigs = self.in_sigs
        for dur, changes in job["events"]:
            for n, v in changes.items():
                ctx.set(sigs[n], v)
            await ctx.tick(dom).repeat(dur)
        job["total"] = ctx.get(self.top.cycle)

    async def _sampler(self, ctx):
        job = self._job
        if job is None:
            return
        rec = job["rec"]
        outs = self.out_sigs
        cyc = self.top.cycle
        rec[ctx.get(cyc)] = tuple(ctx.get(s) for s in outs)
        while True:
            try:
                await ctx.changed(*outs)
            except BrokenTrigger:
                # a watched output changed again in a later delta of the same time step, after this process
                # had already been scheduled; we run after the design has settled, so just read the values
                pass
            rec[ctx.get(cyc)] = tuple(int(ctx.get(s)) for s in outs)

    def run(self, events):
        job = dict(events=events, rec={}, total=None)
        self._job = job
        if not self._first:
            self.sim.reset()
        self._first = False
        self.sim.run()
        total = job["total"]
        log = []
        last = None
        for c in sorted(job["rec"]):
            if c >= total:
                break
            v = job["rec"][c]
            if v != last:
                log.append((c, self.Out(*v)))
                last = v
        return log, total
