"""Generator helpers shared by property modules (everything stays inside Hypothesis so that
shrinking and seeded replay work)."""

from hypothesis import strategies as st
from hypothesis.strategies._internal.collections import ListStrategy


class _LongList(ListStrategy):
    def __init__(self, elements, min_size, max_size, average):
        super().__init__(elements, min_size=min_size, max_size=max_size)
        self.average_size = min(max(average, min_size), max_size)


def long_lists(elements, *, min_size=0, max_size, average):
    """Like st.lists but with a chosen *average* length.  st.lists(max_size=120) averages ~5
    elements, which starves deep states; this keeps list shrinking (element deletion) intact."""
    return _LongList(elements, min_size, max_size, average)


def weighted(pairs):
    """sampled_from over (value, weight) pairs; shrinks towards the first value."""
    vals = []
    for v, w in pairs:
        vals += [v] * w
    return st.sampled_from(vals)


def bits(n):
    return st.integers(0, (1 << n) - 1)


def stall_pattern(max_len=64, p_ready_weights=((1, 3), (0, 1))):
    """A ready/valid pattern: list of 0/1, used cyclically by drivers."""
    return st.lists(weighted(p_ready_weights), min_size=1, max_size=max_len)
