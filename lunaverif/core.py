"""Core types shared by every property module.

A property module ``lunaverif/props/cNN.py`` defines

    PROPERTY = "CNN"
    SUBS     = [SomeSub(), ...]          # instances of Sub

Each Sub is one generated-input check: a Hypothesis strategy that *constructs* JSON-able
cases, a ``run(case)`` that drives the real LUNA gateware in the Amaranth simulator and
judges the recorded trace with an oracle that is independent of the gateware, and a
classifier (non-trivial flag + labels) so that the evidence says what was really explored.
"""

from dataclasses import dataclass, field


@dataclass
class Result:
    ok: bool = True
    msg: str = ""                 # human-readable verdict for a failure
    nontrivial: bool = False      # case met the sub's stated non-trivial rule
    labels: tuple = ()            # classification labels (histogram in the evidence)
    signature: str = None         # for failures: short root-cause signature (known-findings key)
    target: float = None          # optional hypothesis.target() score


class Sub:
    """One generated-input check. Subclass and override."""

    name = "main"
    #: Hypothesis examples summed over all workers, per tier.
    budget = {"quick": 1000, "thorough": 20000}
    #: how cases are generated and what makes one non-trivial.
    rule = ""
    #: max evaluations spent shrinking after the first failure (per worker).
    shrink_budget = 400

    def setup(self):
        """Per-worker initialisation (build simulators).  Called once, lazily."""

    def strategy(self):
        """Hypothesis strategy producing JSON-able cases."""
        raise NotImplementedError

    def enumerate(self, tier):
        """Return an iterable of cases for an exhaustive pass, or None."""
        return None

    #: set True when enumerate() covers the sub's whole domain
    exhaustive = False

    def run(self, case) -> Result:
        raise NotImplementedError


class HarnessError(Exception):
    """Raised by harness code for conditions that are not oracle verdicts."""


def fail(msg, signature=None, **kw):
    return Result(ok=False, msg=msg, signature=signature, **kw)
