"""Full-speed USB line coding reference (independent of luna): bit order, bit stuffing, NRZI, SYNC / EOP framing,
and a 4x-oversampled D+/D- sample stream with programmable start phase and clock drift (sample slips).

Symbols: 'J' (D+=1, D-=0; idle), 'K' (D+=0, D-=1), '0' (SE0).

Conventions (stated in the C25 assumptions): bytes are sent LSB first; a 0 is inserted after six consecutive 1s of
the *data* bit stream (the run counter starts at the first data bit; packets whose first byte begins with five 1s,
where counting the SYNC's final 1 would differ, are excluded by the generator); a stuffed 0 is also inserted when the
packet ends with six 1s.

Self-checked at import (round trips and hand-computed vectors); a failure raises and is a harness error (exit 2).
"""

SYNC = "KJKJKJKK"
EOP = "00J"
LEVEL = {"J": (1, 0), "K": (0, 1), "0": (0, 0)}


def bytes_to_bits(data):
    return [(b >> i) & 1 for b in data for i in range(8)]


def stuff(bits, violate_at=None):
    """Insert a 0 after every run of six 1s.  violate_at=n: the n-th (0-based) stuffed bit is sent as 1 instead
    (a bit-stuffing violation: seven 1s in a row); the run counter restarts after it."""
    out = []
    run = 0
    nstuff = 0
    for b in bits:
        out.append(b)
        run = run + 1 if b else 0
        if run == 6:
            if violate_at is not None and nstuff == violate_at:
                out.append(1)
            else:
                out.append(0)
            nstuff += 1
            run = 0
    return out, nstuff


def unstuff(bits):
    """Inverse of stuff(); returns (data bits, violation seen)."""
    out = []
    run = 0
    bad = False
    i = 0
    while i < len(bits):
        b = bits[i]
        if run == 6:
            if b:
                bad = True
            run = 0
            i += 1
            continue
        out.append(b)
        run = run + 1 if b else 0
        i += 1
    return out, bad


def nrzi(bits, start="K"):
    """NRZI symbols for data bits following the SYNC (whose last symbol is K): 0 = toggle, 1 = keep."""
    cur = start
    out = []
    for b in bits:
        if not b:
            cur = "J" if cur == "K" else "K"
        out.append(cur)
    return "".join(out)


def encode_packet(data, violate_at=None):
    """Line symbols of one packet: SYNC, stuffed NRZI data, EOP."""
    bits, _ = stuff(bytes_to_bits(data), violate_at)
    return SYNC + nrzi(bits) + EOP


def count_stuffed(data):
    return stuff(bytes_to_bits(data))[1]


def to_samples(symbols, slips=()):
    """4 samples per symbol; slips = {symbol index: -1 | +1} shortens / lengthens that symbol by one sample
    (models the transmitter's bit clock being fast / slow relative to the 48 MHz sampler)."""
    slips = dict(slips)
    out = []
    for i, s in enumerate(symbols):
        n = 4 + slips.get(i, 0)
        out.extend([LEVEL[s]] * n)
    return out


def symbols_strict(samples):
    """Decode a run of (dp, dn) samples produced by a transmitter that shares the sampler's clock: exactly four
    identical samples per symbol.  Returns the symbol string or raises ValueError describing the irregularity."""
    if len(samples) % 4:
        raise ValueError(f"driven for {len(samples)} samples, not a multiple of 4")
    inv = {v: k for k, v in LEVEL.items()}
    out = []
    for i in range(0, len(samples), 4):
        q = samples[i:i + 4]
        if len(set(q)) != 1:
            raise ValueError(f"symbol {i // 4} changes inside its bit time: {q}")
        if q[0] not in inv:
            raise ValueError(f"symbol {i // 4} is SE1")
        out.append(inv[q[0]])
    return "".join(out)


def decode_symbols(symbols):
    """Parse SYNC + data + EOP; returns (bytes, stuffing_violation) or raises ValueError."""
    if not symbols.startswith(SYNC):
        raise ValueError("no SYNC")
    if not symbols.endswith(EOP):
        raise ValueError("no EOP")
    body = symbols[len(SYNC):-len(EOP)]
    if "0" in body:
        raise ValueError("SE0 inside the packet")
    prev = "K"
    bits = []
    for s in body:
        bits.append(1 if s == prev else 0)
        prev = s
    data, bad = unstuff(bits)
    if len(data) % 8:
        raise ValueError(f"{len(data)} data bits: not a whole number of bytes")
    return bytes(sum(data[i + j] << j for j in range(8)) for i in range(0, len(data), 8)), bad


def receive_samples(samples):
    """Tolerant receiver over an oversampled stream (transition-resynchronised, mid-bit sampling): returns the list
    of symbol strings of the packets found.  Used only to self-check to_samples() with slips."""
    inv = {v: k for k, v in LEVEL.items()}
    pk = []
    cur = None
    last = "J"
    phase = 0
    for s in samples:
        st = inv.get(s, "1")
        if st != last:
            phase = 0
            last = st
        else:
            phase = (phase + 1) % 4
        if phase == 1:
            if cur is None:
                if st == "K":
                    cur = ["K"]
            else:
                cur.append(st)
                if len(cur) >= 3 and cur[-3:] == ["0", "0", "J"]:
                    pk.append("".join(cur))
                    cur = None
    return pk


def mangled_bits(data, violate_at=None, omit=(), trunc=None, dribble=()):
    """Line bits (after the SYNC, before the EOP) of a packet sent by a faulty / marginal transmitter or through a
    hub chain: the bytes are stuffed as in stuff() except that the stuffed bits whose 0-based index is in `omit` are
    not inserted at all (the transmitter's run counter still restarts there) and the one at `violate_at` is sent as
    1; then only the first `trunc` bits are kept (a runt) and the raw bits `dribble` are appended ahead of the EOP
    (USB 2.0 7.1.9.1 dribble)."""
    omit = set(omit)
    out = []
    run = 0
    nstuff = 0
    for b in bytes_to_bits(data):
        out.append(b)
        run = run + 1 if b else 0
        if run == 6:
            if nstuff in omit:
                pass
            elif violate_at is not None and nstuff == violate_at:
                out.append(1)
            else:
                out.append(0)
            nstuff += 1
            run = 0
    if trunc is not None:
        out = out[:trunc]
    return out + [int(bool(b)) for b in dribble]


def encode_bits(bits):
    """Line symbols of SYNC + NRZI(bits, already stuffed or not) + EOP."""
    return SYNC + nrzi(list(bits)) + EOP


def has_seven_ones(bits):
    """True iff the line bit stream contains seven consecutive 1s (a bit-stuffing violation for any receiver)."""
    run = 0
    for b in bits:
        run = run + 1 if b else 0
        if run >= 7:
            return True
    return False


def residue_bits(bits):
    """Number of data bits a stuffing-removing receiver is left with beyond a whole number of bytes (0..7)."""
    return len(unstuff(list(bits))[0]) % 8


def _selfcheck():
    # ACK handshake (PID 0xD2): bits LSB first 0 1 0 0 1 0 1 1
    assert encode_packet([0xD2]) == SYNC + "JJKJJKKK" + EOP, encode_packet([0xD2])
    # six ones in the middle: 0x7E -> 0 111111 [0] 0
    b, n = stuff(bytes_to_bits([0x7E]))
    assert b == [0, 1, 1, 1, 1, 1, 1, 0, 0] and n == 1
    # packet ending in six ones gets a trailing stuffed 0
    b, n = stuff(bytes_to_bits([0xFC]))
    assert b == [0, 0, 1, 1, 1, 1, 1, 1, 0] and n == 1
    # 16 ones: stuffed after 6 and 12
    b, n = stuff(bytes_to_bits([0xFF, 0xFF]))
    assert b == [1] * 6 + [0] + [1] * 6 + [0] + [1] * 4 and n == 2
    # mangled packets: nothing mangled = the ordinary stuffed stream
    assert mangled_bits([0xFF, 0xFF]) == stuff(bytes_to_bits([0xFF, 0xFF]))[0]
    assert mangled_bits([0xFF, 0xFF], violate_at=1) == stuff(bytes_to_bits([0xFF, 0xFF]), 1)[0]
    # stuffing omitted everywhere = the raw bits: eight 1s in a row, the receiver drops one and keeps 8n-1 bits
    assert mangled_bits([0xC3, 0xFF, 0x22], omit=(0,)) == bytes_to_bits([0xC3, 0xFF, 0x22])
    assert has_seven_ones(mangled_bits([0xC3, 0xFF, 0x22], omit=(0,)))
    assert residue_bits(mangled_bits([0xC3, 0xFF, 0x22], omit=(0,))) == 7
    # an omitted stuffed bit in front of a 0 is not a violation, but the receiver still loses a bit
    assert not has_seven_ones(mangled_bits([0x7E, 0x00], omit=(0,)))
    assert residue_bits(mangled_bits([0x7E, 0x00], omit=(0,))) == 7
    assert residue_bits(mangled_bits([0xD2, 0x7E], dribble=(1,))) == 1
    assert residue_bits(mangled_bits([0xD2, 0x7E], trunc=11)) == 3
    assert encode_bits(mangled_bits([0xD2])) == encode_packet([0xD2])
    x = 0x1234567
    for k in range(200):
        x = (x * 1103515245 + 12345) & 0x7FFFFFFF
        ln = 1 + (x >> 8) % 40
        data = []
        for _ in range(ln):
            x = (x * 1103515245 + 12345) & 0x7FFFFFFF
            r = (x >> 12) & 0xFF
            data.append(0xFF if (x >> 25) % 3 == 0 else r)
        sym = encode_packet(data)
        got, bad = decode_symbols(sym)
        assert got == bytes(data) and not bad
        assert symbols_strict(to_samples(sym)) == sym
        slips = {}
        pos = 40 + (x % 30)
        while pos < len(sym) - 4:
            slips[pos] = 1 if (pos & 1) else -1
            pos += 100
        rx = receive_samples([LEVEL["J"]] * 9 + to_samples(sym, slips) + [LEVEL["J"]] * 8)
        assert rx == [sym], (data, slips)
        if count_stuffed(data):
            sv = encode_packet(data, violate_at=0)
            try:
                _, bad = decode_symbols(sv)
            except ValueError:
                bad = True
            assert bad


_selfcheck()
