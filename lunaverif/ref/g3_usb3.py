"""USB3 physical-layer reference data (g3): symbols, scrambler LFSR, training sets, LFPS timing.

Everything here is entered from the USB 3.x specification (chapter 6, appendix B), never imported
from ``luna``.  Self-checked at import against the published scrambler sequence, so that a wrong
oracle fails as a harness error (exit 2) instead of a bogus verdict.
"""

from fractions import Fraction

# ---- K symbols (8b/10b Kx.y -> byte (y << 5) | x) -------------------------------------------------
SKP = 0x3C   # K28.1
SDP = 0x5C   # K28.2
EDB = 0x7C   # K28.3
SUB = 0x9C   # K28.4
COM = 0xBC   # K28.5
RSD = 0xDC   # K28.6
SHP = 0xFB   # K27.7
END = 0xFD   # K29.7
SLC = 0xFE   # K30.7
EPF = 0xF7   # K23.7
K_SYMBOLS = (SKP, SDP, EDB, SUB, COM, RSD, SHP, END, SLC, EPF)


# ---- words <-> symbols -----------------------------------------------------------------------------
# A 32-bit stream word carries four symbols, symbol 0 in the least significant byte (first on the wire).

def word_to_syms(data, ctrl):
    """-> [(byte, is_k), ...] for symbols 0..3."""
    return [((data >> (8 * i)) & 0xFF, (ctrl >> i) & 1) for i in range(4)]


def syms_to_word(syms):
    """[(byte, is_k)] * 4 -> (data, ctrl)."""
    data = 0
    ctrl = 0
    for i, (b, k) in enumerate(syms):
        data |= (b & 0xFF) << (8 * i)
        ctrl |= (k & 1) << i
    return data, ctrl


# ---- scrambler LFSR (USB3 appendix B): x^16 + x^5 + x^4 + x^3 + 1, bit-serial -------------------------

LFSR_INIT = 0xFFFF


def lfsr_byte(state):
    """One scrambler byte: eight serial shifts; output bit i of the byte is LFSR bit 15 before shift i.
    Returns (byte, new_state)."""
    out = 0
    for i in range(8):
        msb = (state >> 15) & 1
        out |= msb << i
        state = (state << 1) & 0xFFFF
        if msb:
            state ^= 0x0039            # x^5 + x^4 + x^3 + 1
    return out, state


def lfsr_word(state):
    """Four successive scrambler bytes packed little-endian (byte for symbol 0 in bits 7:0).
    Returns (word, new_state)."""
    w = 0
    for i in range(4):
        b, state = lfsr_byte(state)
        w |= b << (8 * i)
    return w, state


def lfsr_stream(n, state=LFSR_INIT):
    out = []
    for _ in range(n):
        b, state = lfsr_byte(state)
        out.append(b)
    return out


def scramble_word(data, ctrl, key):
    """XOR the D symbols of a word with the key bytes; K symbols pass unchanged."""
    out = 0
    for i in range(4):
        b = (data >> (8 * i)) & 0xFF
        if not (ctrl >> i) & 1:
            b ^= (key >> (8 * i)) & 0xFF
        out |= b << (8 * i)
    return out


# Published sequence, USB 3.x appendix B / PCIe appendix C: scrambling 0x00 bytes from LFSR = FFFFh.
_PUBLISHED = [0xFF, 0x17, 0xC0, 0x14, 0xB2, 0xE7, 0x02, 0x82, 0x72, 0x6E, 0x28, 0xA6, 0xBE, 0x6D, 0xBF, 0x8D,
              0xBE, 0x40, 0xA7, 0xE6, 0x2C, 0xD3, 0xE2, 0xB2, 0x07, 0x02, 0x77, 0x2A, 0xCD, 0x34, 0xBE, 0xE0,
              0xA7, 0x5D, 0x24, 0xB1, 0x9B, 0xA1, 0xBD, 0x22, 0xD4, 0x45, 0x1D, 0xD3, 0xD7, 0xEA, 0x76, 0xEE]
if lfsr_stream(len(_PUBLISHED)) != _PUBLISHED:
    raise AssertionError("g3_usb3: reference LFSR does not reproduce the published scrambler sequence")


# ---- training ordered sets ([USB3.2r1 6.4.1], tables 6-3 .. 6-7) ---------------------------------------
D10_2 = 0x4A
D5_2 = 0x45
D21_5 = 0xB5   # inverted-polarity view of D10.2

# TSEQ: K28.5 D31.7 D23.0 D0.6 D20.0 D18.5 D7.7 D2.0 D2.4 D18.3 D14.3 D8.1 D6.5 D30.5 D13.3 D31.5, 16 x D10.2
TSEQ_SYMS = [(COM, 1)] + [(b, 0) for b in (0xFF, 0x17, 0xC0, 0x14, 0xB2, 0xE7, 0x02, 0x82, 0x72, 0x6E, 0x28, 0xA6,
                                           0xBE, 0x6D, 0xBF)] + [(D10_2, 0)] * 16


def ts_syms(ident, link_functionality=0):
    """TS1 (ident D10.2) / TS2 (ident D5.2): 4 x COM, reserved 00, link functionality, 10 x ident."""
    return [(COM, 1)] * 4 + [(0x00, 0), (link_functionality & 0xFF, 0)] + [(ident, 0)] * 10


def syms_to_words(syms):
    assert len(syms) % 4 == 0
    return [syms_to_word(syms[i:i + 4]) for i in range(0, len(syms), 4)]


# link functionality bits (symbol 5)
LF_HOT_RESET = 1 << 0
LF_LOOPBACK = 1 << 2
LF_NO_SCRAMBLING = 1 << 3


def ts_words(kind, link_functionality=0):
    """kind in 'TSEQ','TS1','TS2','ITS1' -> list of (data, ctrl) words."""
    if kind == "TSEQ":
        return syms_to_words(TSEQ_SYMS)
    ident = {"TS1": D10_2, "TS2": D5_2, "ITS1": D21_5}[kind]
    return syms_to_words(ts_syms(ident, link_functionality))


# ---- LFPS timing ([USB3.2r1 table 6-30]), seconds as exact fractions --------------------------------------

def _f(x):
    return Fraction(x).limit_denominator(10 ** 12)


LFPS_TIMING = {
    #            burst (min, typ, max)                 repeat (min, typ, max) or None
    "polling": ((_f("0.6e-6"), _f("1.0e-6"), _f("1.4e-6")), (_f("6e-6"), _f("10e-6"), _f("14e-6"))),
    "ping":    ((_f("40e-9"), None, _f("160e-9")), (_f("160e-3"), _f("200e-3"), _f("240e-3"))),
    "reset":   ((_f("80e-3"), _f("100e-3"), _f("120e-3")), None),
}
