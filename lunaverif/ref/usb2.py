"""USB 2.0 packet-level reference: PIDs, encoders and a tolerant wire parser (independent of luna)."""
from lunaverif.ref.crc import usb2_crc5, usb2_crc16

PID_OUT, PID_IN, PID_SOF, PID_SETUP = 0x1, 0x9, 0x5, 0xD
PID_DATA0, PID_DATA1, PID_DATA2, PID_MDATA = 0x3, 0xB, 0x7, 0xF
PID_ACK, PID_NAK, PID_STALL, PID_NYET = 0x2, 0xA, 0xE, 0x6
PID_PING = 0x4
TOKEN_PIDS = (PID_OUT, PID_IN, PID_SETUP, PID_PING)
DATA_PIDS = (PID_DATA0, PID_DATA1, PID_DATA2, PID_MDATA)
HANDSHAKE_PIDS = (PID_ACK, PID_NAK, PID_STALL, PID_NYET)
PID_NAMES = {0x1: "OUT", 0x9: "IN", 0x5: "SOF", 0xD: "SETUP", 0x3: "DATA0", 0xB: "DATA1", 0x7: "DATA2", 0xF: "MDATA",
             0x2: "ACK", 0xA: "NAK", 0xE: "STALL", 0x6: "NYET", 0x4: "PING", 0xC: "PRE/ERR", 0x8: "SPLIT", 0x0: "RSVD"}


def pid_byte(pid):
    return (pid & 0xF) | ((~pid & 0xF) << 4)


def pid_ok(byte):
    return (byte & 0xF) == ((~byte >> 4) & 0xF)


def token(pid, addr, endp):
    v = (addr & 0x7F) | ((endp & 0xF) << 7)
    w = v | (usb2_crc5(v) << 11)
    return bytes([pid_byte(pid), w & 0xFF, w >> 8])


def sof(frame):
    v = frame & 0x7FF
    w = v | (usb2_crc5(v) << 11)
    return bytes([pid_byte(PID_SOF), w & 0xFF, w >> 8])


def data_packet(pid, payload):
    c = usb2_crc16(bytes(payload))
    return bytes([pid_byte(pid)]) + bytes(payload) + bytes([c & 0xFF, c >> 8])


def handshake(pid):
    return bytes([pid_byte(pid)])


def setup_payload(bmRequestType, bRequest, wValue, wIndex, wLength):
    return bytes([bmRequestType & 0xFF, bRequest & 0xFF, wValue & 0xFF, (wValue >> 8) & 0xFF,
                  wIndex & 0xFF, (wIndex >> 8) & 0xFF, wLength & 0xFF, (wLength >> 8) & 0xFF])


def parse(packet):
    """Classify any byte string seen on the wire.

    Returns a dict with 'kind' in: empty, badpid, token, sof, token-badcrc, token-badlen, data,
    data-badcrc, data-short, handshake, handshake-long, other — plus decoded fields."""
    p = bytes(packet)
    if not p:
        return dict(kind="empty")
    if not pid_ok(p[0]):
        return dict(kind="badpid", raw=p[0])
    pid = p[0] & 0xF
    if pid in TOKEN_PIDS or pid == PID_SOF:
        if len(p) != 3:
            return dict(kind="token-badlen", pid=pid, length=len(p))
        w = p[1] | (p[2] << 8)
        v = w & 0x7FF
        if usb2_crc5(v) != (w >> 11):
            return dict(kind="token-badcrc", pid=pid)
        if pid == PID_SOF:
            return dict(kind="sof", pid=pid, frame=v)
        return dict(kind="token", pid=pid, addr=v & 0x7F, endp=v >> 7)
    if pid in DATA_PIDS:
        if len(p) < 3:
            return dict(kind="data-short", pid=pid, length=len(p))
        payload = p[1:-2]
        c = p[-2] | (p[-1] << 8)
        if usb2_crc16(payload) != c:
            return dict(kind="data-badcrc", pid=pid, payload=payload)
        return dict(kind="data", pid=pid, payload=payload)
    if pid in HANDSHAKE_PIDS:
        if len(p) != 1:
            return dict(kind="handshake-long", pid=pid, length=len(p))
        return dict(kind="handshake", pid=pid)
    return dict(kind="other", pid=pid, length=len(p))


assert token(PID_SETUP, 0, 0) == bytes([0x2D, 0x00, 0x10])
assert sof(1) == bytes([0xA5, 0x01, 0xE8])
assert data_packet(PID_DATA1, []) == bytes([0x4B, 0x00, 0x00])
assert data_packet(PID_DATA0, [0x80, 6, 0, 1, 0, 0, 0x40, 0]) == bytes([0xC3, 0x80, 6, 0, 1, 0, 0, 0x40, 0, 0xDD, 0x94])
