"""Reference model: bounded queue with commit/rollback on both ports.

Semantics (from TransactionalizedFIFO's docstring; every strobe acts on the state at the
start of the cycle):
  * a write is performed iff write_en and not full; a read iff read_en and not empty;
  * write_commit makes the writes *before this cycle* readable; write_discard erases the
    uncommitted writes (including one attempted in the same cycle);
  * read_commit frees the reads *before this cycle*; read_discard rewinds to the last
    committed read position (also undoing a read attempted in the same cycle).
Absolute (unbounded) indices are used, so wrap-around does not exist in the model.
"""


class TransactionalQueue:
    def __init__(self, depth):
        self.depth = depth
        self.data = {}
        self.rc = self.r = self.wc = self.w = 0

    # --- outputs during the current cycle
    @property
    def empty(self):
        return self.r == self.wc

    @property
    def full(self):
        return (self.w - self.rc) >= self.depth

    @property
    def space(self):
        return self.depth - (self.w - self.rc)

    @property
    def head(self):
        return None if self.empty else self.data[self.r]

    def committed_unread(self):
        return [self.data[i] for i in range(self.r, self.wc)]

    # --- clock edge
    def step(self, we=0, wd=0, wcommit=0, wdiscard=0, re=0, rcommit=0, rdiscard=0):
        do_w = we and not self.full
        do_r = re and not self.empty
        r, w = self.r, self.w
        if do_w:
            self.data[w] = wd
        nw = w + 1 if do_w else w
        nr = r + 1 if do_r else r
        if wcommit:
            self.wc = w
        if wdiscard:
            nw = self.wc if not wcommit else nw      # commit & discard together is never generated
        if rcommit:
            self.rc = r
        if rdiscard:
            nr = self.rc if not rcommit else nr
        self.w, self.r = nw, nr
        return do_w, do_r
