"""Reference packetisation of a byte stream into bulk IN data packets (g5, C46) — USB 3.2 §8.12.1 / USB 2.0 §5.8.3:
a transfer is carried by max-packet-size packets and ends with a short packet; when its length is a multiple of
the max packet size the short packet is a zero-length one.  A stream chunk that does not assert `last` does not
end a transfer: its bytes simply continue to fill max-size packets."""


def packetize(transfers, mps):
    """transfers: list of (bytes, ends_transfer).  -> list of dict(data, word_index_of_completion, zlp)
    where word_index_of_completion is the index (over all 32-bit stream words of the case) of the stream word
    whose acceptance completes the packet (a ZLP completes with the packet before it)."""
    out = []
    cur = bytearray()
    widx = -1
    for data, ends in transfers:
        n = len(data)
        assert n > 0
        for off in range(0, n, 4):
            chunk = data[off:off + 4]
            widx += 1
            cur += chunk
            final = ends and off + 4 >= n
            assert len(cur) <= mps, "stream words must not straddle a packet boundary"
            if len(cur) == mps or final:
                out.append(dict(data=bytes(cur), done_word=widx, zlp=False))
                if final and len(cur) == mps:
                    out.append(dict(data=b"", done_word=widx, zlp=True))
                cur = bytearray()
    leftover = bytes(cur)
    return out, leftover
