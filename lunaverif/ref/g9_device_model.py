"""Host-visible reference model of a LUNA USB2 device (harness family B) -- independent of luna.

The model is driven only by what a host and the application side of the device can see:

  * host transactions (token [+ data] -> device response [-> host handshake]) with their cycle stamps,
  * bytes accepted by the IN stream endpoints / consumed from the OUT stream endpoints (with cycle stamps),
  * bus resets, the value of the status signal.

For every transaction ``judge(txn)`` returns the *set* of responses the property statements allow (a set,
because the NAK-vs-data decision of a stream IN endpoint that is still filling and the ACK-vs-NAK decision of
an OUT endpoint whose FIFO may overflow depend on sub-transaction timing the statements do not fix), compares
the actual response, and advances the model state using the actual response where the set has two members.

Response notation (tuples):  ("none",) | ("hs", pid) | ("data", pid, payload-bytes) | ("bad", description)
"""
from lunaverif.core import HarnessError
from lunaverif.ref import usb2 as U

NONE = ("none",)
ACK = ("hs", U.PID_ACK)
NAK = ("hs", U.PID_NAK)
STALL = ("hs", U.PID_STALL)

# standard request codes (USB 2.0 table 9-4)
GET_STATUS, CLEAR_FEATURE, SET_FEATURE, SET_ADDRESS = 0, 1, 3, 5
GET_DESCRIPTOR, SET_DESCRIPTOR, GET_CONFIGURATION, SET_CONFIGURATION = 6, 7, 8, 9
GET_INTERFACE, SET_INTERFACE, SYNCH_FRAME = 10, 11, 12
IMPLEMENTED_STANDARD = (GET_STATUS, CLEAR_FEATURE, SET_ADDRESS, GET_DESCRIPTOR, GET_CONFIGURATION, SET_CONFIGURATION)
ACM_SET_LINE_CODING = 0x20


def data_pid(toggle):
    return U.PID_DATA1 if toggle else U.PID_DATA0


def show(resp):
    if resp[0] == "none":
        return "no response"
    if resp[0] == "hs":
        return U.PID_NAMES.get(resp[1], hex(resp[1]))
    if resp[0] == "data":
        return f"{U.PID_NAMES.get(resp[1])}[{bytes(resp[2]).hex()}]"
    return f"malformed({resp[1]})"


def parse_response(raw):
    """bytes transmitted by the device in one tx burst -> response tuple."""
    if raw is None:
        return NONE
    p = U.parse(raw)
    if p["kind"] == "handshake":
        return ("hs", p["pid"])
    if p["kind"] == "data":
        return ("data", p["pid"], bytes(p["payload"]))
    return ("bad", p["kind"] + ":" + bytes(raw).hex())


# ------------------------------------------------------------------------------------------- requests
def classify_request(req, descriptors, acm=False):
    """req = (bmRequestType, bRequest, wValue, wIndex, wLength) ->
    dict(kind=..., data=bytes|None) where kind is one of
      get (device-to-host data known), nodata:<name> (no data stage, takes effect at completed status),
      stall-data (GET_DESCRIPTOR of an absent descriptor: STALL at the data stage), unsupported (must STALL),
      out-data (claimed request with an OUT data stage: ACM SET_LINE_CODING), unspecified (statement silent)."""
    bm, breq, wvalue, windex, wlength = req
    dir_in = bm >> 7
    rtype = (bm >> 5) & 3
    recipient = bm & 0x1F
    if rtype == 0:
        if breq == GET_STATUS:
            if dir_in and wlength >= 2 and recipient in (0, 1, 2):
                return dict(kind="get", name="get_status", data=bytes([0, 0]))
            return dict(kind="unspecified")
        if breq == CLEAR_FEATURE:
            if dir_in or wlength:
                return dict(kind="unspecified")
            if recipient == 2 and wvalue == 0:
                return dict(kind="nodata", name="clear_halt")
            return dict(kind="unsupported", name="clear_feature_other")
        if breq == SET_ADDRESS:
            if not dir_in and wlength == 0 and recipient == 0:
                return dict(kind="nodata", name="set_address")
            return dict(kind="unspecified")
        if breq == SET_CONFIGURATION:
            if not dir_in and wlength == 0 and recipient == 0:
                return dict(kind="nodata", name="set_configuration")
            return dict(kind="unspecified")
        if breq == GET_CONFIGURATION:
            if dir_in and wlength >= 1 and recipient == 0:
                return dict(kind="get", name="get_configuration", data=None)      # filled from model state
            return dict(kind="unspecified")
        if breq == GET_DESCRIPTOR:
            if dir_in and wlength >= 1:
                d = descriptors.get((wvalue >> 8, wvalue & 0xFF))
                if d is None:
                    return dict(kind="stall-data", name="get_descriptor_absent")
                return dict(kind="get", name="get_descriptor", data=bytes(d[:wlength]))
            return dict(kind="unspecified")
        return dict(kind="unsupported", name="standard_unimplemented")
    if acm and rtype == 1 and breq == ACM_SET_LINE_CODING:
        if not dir_in and wlength == 7:
            return dict(kind="out-data", name="set_line_coding")
        return dict(kind="unspecified")
    return dict(kind="unsupported", name=("class", "vendor", "reserved")[rtype - 1])


def chunks(data, mps=64):
    """Control data stage packets for `data` (never an exact non-zero multiple followed by a ZLP: callers keep
    len(data) == wLength or len(data) % mps != 0, the C09 corner is owned by another check)."""
    data = bytes(data)
    if not data:
        return [b""]
    return [data[i:i + mps] for i in range(0, len(data), mps)]


# ------------------------------------------------------------------------------------------- endpoints
class StreamIn:
    """USBStreamInEndpoint as the host sees it: the accepted byte stream cut at max-packet-size or `last`,
    a ZLP after a full packet that carried `last`; each packet re-sent until ACKed; PID toggles per ACK."""
    #: a packet closed this many cycles after the end of the IN token (or later) cannot be sent for that token
    LATE = 8

    def __init__(self, mps):
        self.mps = mps
        self.cur = []
        self.pkts = []          # (payload, cycle at which the closing byte was accepted)
        self.acked = 0
        self.pid = 0            # toggle of the next packet to be sent
        self.unknown_pid = False
        self.accepted = []      # all bytes accepted, for exactly-once reconstruction

    def accept(self, byte, last, t):
        self.cur.append(byte)
        self.accepted.append(byte)
        if last or len(self.cur) == self.mps:
            full = len(self.cur) == self.mps
            self.pkts.append((bytes(self.cur), t))
            if last and full:
                self.pkts.append((b"", t))
            self.cur = []

    def expect(self, t_tok_end):
        if self.acked >= len(self.pkts):
            return [NAK]
        payload, tc = self.pkts[self.acked]
        pids = (U.PID_DATA0, U.PID_DATA1) if self.unknown_pid else (data_pid(self.pid),)
        data = [("data", p, payload) for p in pids]
        if tc <= t_tok_end:
            return data
        if tc >= t_tok_end + self.LATE:
            return [NAK]
        return data + [NAK]

    def update(self, resp, host_ack):
        if resp[0] == "data":
            if self.unknown_pid:
                self.pid = 1 if resp[1] == U.PID_DATA1 else 0
                self.unknown_pid = False
            if host_ack:
                self.acked += 1
                self.pid ^= 1

    def clear_halt(self):
        self.pid = 0
        self.unknown_pid = False


class SignalIn:
    """USBSignalInEndpoint: every IN is answered with the little-endian signal value latched when the answer
    starts; an un-ACKed answer is repeated verbatim; PID toggles per ACK."""

    def __init__(self, nbytes):
        self.nbytes = nbytes
        self.value = 0
        self.pending = None
        self.pid = 0
        self.unknown_pid = False

    def expect(self, t_tok_end):
        v = self.pending if self.pending is not None else self.value
        payload = bytes((v >> (8 * i)) & 0xFF for i in range(self.nbytes))
        pids = (U.PID_DATA0, U.PID_DATA1) if self.unknown_pid else (data_pid(self.pid),)
        return [("data", p, payload) for p in pids]

    def update(self, resp, host_ack):
        if resp[0] == "data":
            if self.unknown_pid:
                self.pid = 1 if resp[1] == U.PID_DATA1 else 0
                self.unknown_pid = False
            if host_ack:
                self.pending = None
                self.pid ^= 1
            elif self.pending is None:
                self.pending = self.value

    def clear_halt(self):
        # the signal endpoint does not take part in clear-halt handling; nothing is asserted about its toggle
        self.unknown_pid = True


class StreamOut:
    """USBStreamOutEndpoint as the host sees it: in-sequence data is ACKed and delivered exactly once, or NAKed
    (nothing delivered) when the FIFO cannot take it; out-of-sequence data is ACKed and dropped."""

    def __init__(self, mps, depth=None):
        self.mps = mps
        self.depth = depth if depth is not None else 2 * mps - 1
        self.toggle = 0
        self.unknown_toggle = False
        self.expected = []      # bytes that must come out of the stream, in order
        self.consumed = []      # bytes that did come out
        self.flags = []         # (first, last) seen with each consumed byte
        self.tainted_at = None  # len(expected) when an overflow-prone packet was acknowledged
        self._ambiguous = False

    def consume(self, byte, first, last, t):
        self.consumed.append(byte)
        self.flags.append((first, last))

    def occupancy(self):
        return len(self.expected) - len(self.consumed)

    def expect_data(self, pid_toggle, payload, occ_at_start):
        self._ambiguous = self.tainted_at is not None or occ_at_start + len(payload) > self.depth
        if self.unknown_toggle:
            return [ACK, NAK] if self._ambiguous else [ACK]
        if pid_toggle != self.toggle:
            return [ACK]
        return [ACK, NAK] if self._ambiguous else [ACK]

    def update_data(self, pid_toggle, payload, resp):
        if self.unknown_toggle:
            # after an event that leaves the toggle unspecified the delivered stream is not predictable for
            # this one packet; callers avoid OUT traffic in that state (only bus resets create it).
            raise HarnessError("OUT data while the endpoint toggle is unspecified")
        if resp == ACK and pid_toggle == self.toggle:
            self.toggle ^= 1
            if self._ambiguous and self.tainted_at is None:
                # Whether a packet that may not fit is acknowledged-and-delivered, acknowledged-and-dropped or
                # NAKed is C13's subject (a defect of that kind exists); from here on only the toggle is modelled.
                self.tainted_at = len(self.expected)
            if self.tainted_at is None:
                self.expected.extend(payload)

    def expect_ping(self, occ_at_tok_end):
        if self.tainted_at is None and occ_at_tok_end <= self.depth - self.mps:
            return [ACK]
        return [ACK, NAK]

    def clear_halt(self):
        self.toggle = 0
        self.unknown_toggle = False

    def stream_error(self):
        """Delivered bytes must be exactly the acknowledged in-sequence payloads, in order (checked up to the
        point where an overflow-prone packet made the expectation unknowable)."""
        n = min(len(self.consumed), len(self.expected))
        if self.consumed[:n] != self.expected[:n]:
            for i, (a, b) in enumerate(zip(self.consumed, self.expected)):
                if a != b:
                    return f"byte {i} delivered {a:#04x}, expected {b:#04x}"
        if self.tainted_at is None and len(self.consumed) > len(self.expected):
            return f"{len(self.consumed)} bytes delivered but only {len(self.expected)} were acknowledged"
        return None

    def complete(self):
        return self.tainted_at is not None or len(self.consumed) == len(self.expected)


class Ctrl:
    def __init__(self, req, info):
        self.req = tuple(req)
        self.info = info
        self.kind = info["kind"]
        self.name = info.get("name", self.kind)
        self.pkts = None
        self.sent = 0
        self.stalled = False
        self.done = False
        self.status_seen = False
        bm, breq, wvalue, windex, wlength = req
        if wlength == 0:
            self.stage = "status_in"
        elif bm >> 7:
            self.stage = "data_in"
        else:
            self.stage = "data_out"


# ------------------------------------------------------------------------------------------- device
class DeviceModel:
    """endpoints: {(number, 'in'|'out'): StreamIn|SignalIn|StreamOut}; descriptors: {(type, index): bytes}."""

    def __init__(self, descriptors, endpoints, acm=False, ep0_mps=64):
        self.descriptors = descriptors
        self.eps = endpoints
        self.acm = acm
        self.ep0_mps = ep0_mps
        self.addr = 0
        self.config = 0
        self.ctrl = None
        self.events = []            # notable model events, for classification: (name, detail)

    # -- application-side / bus events ---------------------------------------------------------
    def bus_reset(self):
        self.addr = 0
        self.config = 0
        self.ctrl = None
        # the statements say nothing about data toggles across a bus reset
        for ep in self.eps.values():
            if hasattr(ep, "unknown_pid"):
                ep.unknown_pid = True
            else:
                ep.unknown_toggle = True
        self.events.append(("bus_reset", None))

    # -- helpers -----------------------------------------------------------------------------
    def out_toggle(self, epnum):
        ep = self.eps.get((epnum, "out"))
        return ep.toggle if ep is not None else 0

    def toggles(self):
        """{(number, direction): toggle of the next new packet (IN) / expected toggle (OUT)}"""
        return {k: (e.pid if hasattr(e, "pid") else e.toggle) for k, e in self.eps.items()}

    def _apply(self, c):
        bm, breq, wvalue, windex, wlength = c.req
        if c.name == "set_address":
            self.addr = wvalue & 0x7F
            self.events.append(("address", self.addr))
        elif c.name == "set_configuration":
            self.config = wvalue & 0xFF
            self.events.append(("configuration", self.config))
        elif c.name == "clear_halt":
            key = (windex & 0xF, "in" if windex & 0x80 else "out")
            ep = self.eps.get(key)
            self.events.append(("clear_halt", (key, self.toggles())))
            if ep is not None:
                ep.clear_halt()

    # -- the oracle ----------------------------------------------------------------------------
    def judge(self, txn):
        """txn: dict(kind, addr, ep, pid?, data?, resp, ack, t_tok_end, occ?) -> (ok, allowed, context)."""
        allowed, ctx, upd = self._expect(txn)
        resp = txn["resp"]
        ok = resp in allowed
        if ok and upd is not None:
            upd(resp)
        return ok, allowed, ctx

    def _expect(self, txn):
        kind = txn["kind"]
        if kind == "sof":
            return [NONE], "sof", None
        if txn["addr"] != self.addr:
            return [NONE], f"token for address {txn['addr']} while the device address is {self.addr}", None
        ep = txn["ep"]
        if ep == 0:
            return self._expect_ctrl(txn)
        if kind == "setup":
            raise HarnessError("SETUP to a non-control endpoint is never generated")
        if kind == "in":
            e = self.eps.get((ep, "in"))
            if e is None:
                return [NONE], f"IN to endpoint {ep} which has no IN side", None
            return (e.expect(txn["t_tok_end"]), f"IN ep{ep}",
                    lambda resp: e.update(resp, txn["ack"]))
        e = self.eps.get((ep, "out"))
        if e is None:
            return [NONE], f"{kind.upper()} to endpoint {ep} which has no OUT side", None
        if kind == "ping":
            return e.expect_ping(txn["occ"]), f"PING ep{ep}", None
        tog = 1 if txn["pid"] == U.PID_DATA1 else 0
        payload = bytes(txn["data"])
        return (e.expect_data(tog, payload, txn["occ"]), f"OUT ep{ep} {U.PID_NAMES[txn['pid']]} len {len(payload)}",
                lambda resp: e.update_data(tog, payload, resp))

    def _expect_ctrl(self, txn):
        kind = txn["kind"]
        if kind == "setup":
            req = tuple(txn["req"])
            info = classify_request(req, self.descriptors, self.acm)
            if info["kind"] == "unspecified":
                raise HarnessError(f"generator produced a request the statements say nothing about: {req}")

            def start(resp, req=req, info=info):
                self.ctrl = Ctrl(req, info)
                if info["kind"] == "get":
                    data = info["data"] if info["data"] is not None else bytes([self.config])
                    self.ctrl.pkts = chunks(data, self.ep0_mps)
            # a new SETUP always starts a fresh transfer, whatever the response was
            self.ctrl = None
            return [ACK], "SETUP " + info.get("name", info["kind"]), start
        c = self.ctrl
        if c is None or c.done:
            raise HarnessError(f"{kind} on endpoint 0 outside a control transfer is never generated")
        if kind == "ping":
            raise HarnessError("PING to endpoint 0 is never generated (full speed)")
        name = c.name
        if c.stalled:
            # the transfer has been STALLed; the statements only require that nothing else is answered
            return [STALL, NONE], f"{kind.upper()} after the STALL of {name}", None
        if kind == "in":
            if c.stage == "data_in":
                if c.kind == "get":
                    if c.sent >= len(c.pkts):
                        raise HarnessError("IN after the data stage is complete is never generated")
                    exp = ("data", data_pid((c.sent + 1) & 1), c.pkts[c.sent])

                    def upd(resp):
                        if txn["ack"]:
                            c.sent += 1
                    return [exp], f"data stage IN #{c.sent} of {name}", upd
                if c.kind in ("stall-data", "unsupported"):
                    if c.stalled:
                        return [STALL, NONE], f"IN after the STALL of {name}", None

                    def upd(resp):
                        c.stalled = True
                    return [STALL], f"first data stage IN of {name}", upd
                raise HarnessError(f"unexpected data_in kind {c.kind}")
            if c.stage == "data_out":
                c.stage = "status_in"
            if c.stage == "status_in":
                if c.kind == "unsupported":
                    if c.stalled:
                        return [STALL, NONE], f"IN after the STALL of {name}", None

                    def upd(resp):
                        c.stalled = True
                    return [STALL], f"status stage IN of {name}", upd
                if c.kind in ("nodata", "out-data"):
                    def upd(resp):
                        if txn["ack"]:
                            c.done = True
                            self._apply(c)
                    return [("data", U.PID_DATA1, b"")], f"status stage IN of {name}", upd
                raise HarnessError(f"status IN for {c.kind}")
            raise HarnessError(f"IN in stage {c.stage}")
        # OUT + data on endpoint 0
        payload = bytes(txn["data"])
        if c.stage == "data_in":
            c.stage = "status_out"
        if c.stage == "status_out":
            if c.kind == "get":
                def upd(resp):
                    c.done = True
                return [ACK], f"status stage OUT of {name}", upd
            if c.kind in ("stall-data", "unsupported"):
                if c.stalled:
                    return [STALL, NONE], f"OUT after the STALL of {name}", None

                def upd(resp):
                    c.stalled = True
                return [STALL], f"status stage OUT of {name}", upd
            raise HarnessError(f"status OUT for {c.kind}")
        if c.stage == "data_out":
            if c.kind == "unsupported":
                def upd(resp):
                    if resp == STALL:
                        c.stalled = True
                return [NONE, NAK, STALL], f"data stage OUT of {name}", upd
            if c.kind == "out-data":
                return [ACK], f"data stage OUT of {name}", None
            raise HarnessError(f"data OUT for {c.kind}")
        raise HarnessError(f"OUT in stage {c.stage}")
