"""USB3 header-packet helpers (g5: C45/C46/C47), written from USB 3.2 r1.0 §8.3-§8.7 — independent of luna.

A header packet is three payload DWORDs (DW0..DW2) plus a link-control word that the link layer owns.
Bit positions below are the specification's (bit 0 = LSB of each DWORD, as transmitted).

  DW0[4:0]   Type        LMP 00000b, TP 00100b, DPH 01000b, ITP 01100b
  TP/DPH:    DW0[24:5] route string, DW0[31:25] device address
  ITP:       DW0[18:5] bus-interval counter (14 bit), DW0[31:19] delta (13 bit)        (§8.7, table 8-26)
  TP DW1[3:0] SubType    ACK 1, NRDY 2, ERDY 3, STATUS 4, STALL 5, DEV_NOTIFICATION 6, PING 7, PING_RESPONSE 8
  ACK  TP:   DW1[6] Rty, DW1[7] D, DW1[11:8] Ept Num, DW1[15] HE, DW1[20:16] NumP, DW1[25:21] Seq Num,
             DW2[15:0] stream id, DW2[27] PP                                            (§8.5.1, table 8-13)
  NRDY TP:   DW1[7] D, DW1[11:8] Ept Num                                                (§8.5.2)
  ERDY TP:   DW1[7] D, DW1[11:8] Ept Num, DW1[20:16] NumP                               (§8.5.3)
  STATUS TP: DW1[7] D, DW1[11:8] Ept Num                                                (§8.5.4)
  STALL TP:  DW1[7] D, DW1[11:8] Ept Num                                                (§8.5.5)
"""

TYPE_LMP, TYPE_TP, TYPE_DPH, TYPE_ITP = 0b00000, 0b00100, 0b01000, 0b01100

ST_ACK, ST_NRDY, ST_ERDY, ST_STATUS, ST_STALL, ST_NOTIFY, ST_PING, ST_PING_RESPONSE = 1, 2, 3, 4, 5, 6, 7, 8
SUBTYPE_NAMES = {1: "ACK", 2: "NRDY", 3: "ERDY", 4: "STATUS", 5: "STALL", 6: "NOTIFY", 7: "PING", 8: "PING_RESPONSE"}


def _f(value, lo, width):
    return (value & ((1 << width) - 1)) << lo


def _g(word, lo, width):
    return (word >> lo) & ((1 << width) - 1)


# ---- encoders ---------------------------------------------------------------------------------

def itp_dw0(counter, delta):
    return TYPE_ITP | _f(counter, 5, 14) | _f(delta, 19, 13)


def tp_dw0(address, route=0):
    return TYPE_TP | _f(route, 5, 20) | _f(address, 25, 7)


def ack_tp(address, endpoint, *, seq, nump, retry=0, direction=0, host_error=0, packets_pending=0, route=0):
    """Host (or device) ACK TP; with NumP != 0 and D = IN it is the SuperSpeed 'IN token'."""
    dw1 = (ST_ACK | _f(retry, 6, 1) | _f(direction, 7, 1) | _f(endpoint, 8, 4) | _f(host_error, 15, 1)
           | _f(nump, 16, 5) | _f(seq, 21, 5))
    dw2 = _f(packets_pending, 27, 1)
    return tp_dw0(address, route), dw1, dw2


def status_tp(address, endpoint, *, direction=0, route=0):
    return tp_dw0(address, route), ST_STATUS | _f(direction, 7, 1) | _f(endpoint, 8, 4), 0


# ---- decoders ---------------------------------------------------------------------------------

def header_type(dw0):
    return dw0 & 0x1F


def parse_itp(dw0):
    return dict(counter=_g(dw0, 5, 14), delta=_g(dw0, 19, 13))


def parse_tp(dw0, dw1, dw2=0):
    """Decode a transaction packet into the fields its subtype defines (others are reserved and
    returned under 'reserved' so that a check can look at them if it wants to)."""
    st = _g(dw1, 0, 4)
    out = dict(type=header_type(dw0), route=_g(dw0, 5, 20), address=_g(dw0, 25, 7), subtype=st,
               subtype_name=SUBTYPE_NAMES.get(st, "?%d" % st),
               direction=_g(dw1, 7, 1), endpoint=_g(dw1, 8, 4))
    if st == ST_ACK:
        out.update(retry=_g(dw1, 6, 1), host_error=_g(dw1, 15, 1), nump=_g(dw1, 16, 5), seq=_g(dw1, 21, 5),
                   packets_pending=_g(dw2, 27, 1))
    elif st == ST_ERDY:
        out.update(nump=_g(dw1, 16, 5))
    return out


def _selfcheck():
    # USB 3.2 table 8-26 example shape: counter occupies DW0[18:5], delta DW0[31:19]
    w = itp_dw0(0x3FFF, 0)
    assert w == (0x3FFF << 5) | 0x0C and parse_itp(w) == dict(counter=0x3FFF, delta=0)
    w = itp_dw0(0, 0x1FFF)
    assert w == (0x1FFF << 19) | 0x0C and parse_itp(w) == dict(counter=0, delta=0x1FFF)
    d0, d1, d2 = ack_tp(0x55, 3, seq=17, nump=1, retry=1, direction=1)
    p = parse_tp(d0, d1, d2)
    assert (p["address"], p["endpoint"], p["seq"], p["nump"], p["retry"], p["direction"], p["subtype"]) == \
        (0x55, 3, 17, 1, 1, 1, 1)
    assert d1 == 1 | (1 << 6) | (1 << 7) | (3 << 8) | (1 << 16) | (17 << 21)


_selfcheck()
