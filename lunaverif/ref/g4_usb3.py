"""USB3 link-layer reference (independent of luna): symbols, link commands, header packets, data packet
payload framing and a tolerant stream parser.  Built on lunaverif/ref/crc.py; self-checked at import against
the packets recorded in /repo/tests/test_usb3_receiver.py and test_usb3_data.py (copied here literally) so a
wrong reference fails as an import error (exit 2), never as a violation.

Word convention: a 32-bit word carries four symbols, symbol 0 (first on the wire) in bits 0..7; ``ctrl`` bit i
is the K flag of symbol i.
"""
from lunaverif.ref.crc import usb3_crc5, usb3_crc16, usb3_crc32


def K(x, y):
    return (y << 5) | x


SKP, SDP, EDB, SUB, COM, RSD = K(28, 1), K(28, 2), K(28, 3), K(28, 4), K(28, 5), K(28, 6)
SHP, END, SLC, EPF = K(27, 7), K(29, 7), K(30, 7), K(23, 7)


def kword(*syms):
    d = 0
    for i, s in enumerate(syms):
        d |= s << (8 * i)
    return d, 0xF


LCSTART = kword(SLC, SLC, SLC, EPF)
HPSTART = kword(SHP, SHP, SHP, EPF)
DPPSTART = kword(SDP, SDP, SDP, EPF)
DPPEND = kword(END, END, END, EPF)
DPPABORT = kword(EDB, EDB, EDB, EPF)
IDLE = (0, 0)

# link command codes (class<<2 | type), USB3.2 table 7-4
LGOOD, LCRD, LRTY, LBAD, LGO_U, LAU, LXU, LPMA, LUP, LDN = 0, 1, 2, 3, 4, 5, 6, 7, 8, 11
LC_NAMES = {0: "LGOOD", 1: "LCRD", 2: "LRTY", 3: "LBAD", 4: "LGO_U", 5: "LAU", 6: "LXU", 7: "LPMA", 8: "LUP",
            11: "LDN"}

TYPE_LMP, TYPE_TP, TYPE_DATA, TYPE_ITP = 0, 4, 8, 12


# ------------------------------------------------------------------ link commands
def lc_word16(command, subtype, reserved=0):
    info = (subtype & 0xF) | ((reserved & 7) << 4) | ((command & 0xF) << 7)
    return info | (usb3_crc5(info) << 11)


def lc_word(command, subtype):
    w = lc_word16(command, subtype)
    return w | (w << 16), 0


def lc_words(command, subtype):
    return [LCSTART, lc_word(command, subtype)]


def lc_decode(data, ctrl):
    """(command, subtype) of a link command word, or None when it must be rejected: any K symbol, copies differ,
    CRC-5 mismatch."""
    if ctrl != 0:
        return None
    lo, hi = data & 0xFFFF, (data >> 16) & 0xFFFF
    if lo != hi:
        return None
    if (lo >> 11) != usb3_crc5(lo & 0x7FF):
        return None
    return (lo >> 7) & 0xF, lo & 0xF


# ------------------------------------------------------------------ header packets
def link_control_word(seq, reserved=0, hub_depth=0, delayed=0, deferred=0):
    v = (seq & 7) | ((reserved & 7) << 3) | ((hub_depth & 7) << 6) | ((delayed & 1) << 9) | ((deferred & 1) << 10)
    return v | (usb3_crc5(v) << 11)


def words_to_bytes(words):
    out = bytearray()
    for w in words:
        out += int(w).to_bytes(4, "little")
    return bytes(out)


def header_dw3(dw0, dw1, dw2, seq, reserved=0, hub_depth=0, delayed=0, deferred=0):
    crc16 = usb3_crc16(words_to_bytes([dw0, dw1, dw2]))
    return crc16 | (link_control_word(seq, reserved, hub_depth, delayed, deferred) << 16)


def header_words(dw0, dw1, dw2, seq, reserved=0, hub_depth=0, delayed=0, deferred=0):
    """[(data, ctrl)] * 5: HPSTART + four words."""
    return [HPSTART, (dw0, 0), (dw1, 0), (dw2, 0),
            (header_dw3(dw0, dw1, dw2, seq, reserved, hub_depth, delayed, deferred), 0)]


def header_check(dw0, dw1, dw2, dw3):
    """Decode the four words of a header packet."""
    lcw = dw3 >> 16
    return dict(dw0=dw0, dw1=dw1, dw2=dw2,
                crc16_ok=(dw3 & 0xFFFF) == usb3_crc16(words_to_bytes([dw0, dw1, dw2])),
                crc5_ok=(lcw >> 11) == usb3_crc5(lcw & 0x7FF),
                seq=lcw & 7, reserved=(lcw >> 3) & 7, hub_depth=(lcw >> 6) & 7, delayed=(lcw >> 9) & 1,
                deferred=(lcw >> 10) & 1, type=dw0 & 0x1F, data_length=dw1 >> 16)


# ------------------------------------------------------------------ data packet payloads
def dpp_symbols(payload, crc=None, abort=False):
    """List of (byte, k) symbols of a DPP: SDP SDP SDP EPF, payload, CRC-32 (LSB first), END END END EPF."""
    syms = [(SDP, 1), (SDP, 1), (SDP, 1), (EPF, 1)]
    if abort:
        return syms + [(EDB, 1), (EDB, 1), (EDB, 1), (EPF, 1)]
    syms += [(b, 0) for b in payload]
    c = usb3_crc32(bytes(payload)) if crc is None else crc
    syms += [((c >> (8 * i)) & 0xFF, 0) for i in range(4)]
    syms += [(END, 1), (END, 1), (END, 1), (EPF, 1)]
    return syms


def pack_symbols(syms, pad=(0, 0)):
    """Symbols -> [(data, ctrl)] words, padding the last word with ``pad`` symbols (logical idle)."""
    syms = list(syms)
    while len(syms) % 4:
        syms.append(pad)
    out = []
    for i in range(0, len(syms), 4):
        d = c = 0
        for j, (b, k) in enumerate(syms[i:i + 4]):
            d |= (b & 0xFF) << (8 * j)
            c |= (k & 1) << j
        out.append((d, c))
    return out


def unpack_words(words):
    syms = []
    for d, c in words:
        for j in range(4):
            syms.append(((d >> (8 * j)) & 0xFF, (c >> j) & 1))
    return syms


def dpp_words(payload, crc=None, abort=False):
    return pack_symbols(dpp_symbols(payload, crc, abort))


def data_header_dw(length, dw0_hi=0, dw1_lo=0, dw2=0):
    """dw0/dw1/dw2 of a data packet header: type DATA, 16-bit data length in dw1[16:32]."""
    return (TYPE_DATA | (dw0_hi << 5)) & 0xFFFFFFFF, (dw1_lo & 0xFFFF) | ((length & 0xFFFF) << 16), dw2


# ------------------------------------------------------------------ stream parser
def parse_stream(words):
    """Tolerant parser over the *valid* words of a link stream (list of (data, ctrl)).

    Returns a list of events, each a dict with 'kind' and 'at' (index of the first word):
      lc      : command, subtype, ok (False: rejected word), raw
      hp      : header_check() fields
      dpp     : payload (bytes), crc_ok, end ('END' | 'EDB' | 'bad-framing'), length implied by framing
      idle    : logical idle word(s)   (run-length merged, 'n')
      junk    : anything else
    A DPP is recognised only directly after a header packet (as on a real link)."""
    ev = []
    i = 0
    n = len(words)
    while i < n:
        w = words[i]
        if w == LCSTART and i + 1 < n:
            d, c = words[i + 1]
            dec = lc_decode(d, c)
            ev.append(dict(kind="lc", at=i, ok=dec is not None, command=dec[0] if dec else None,
                           subtype=dec[1] if dec else None, raw=(d, c)))
            i += 2
        elif w == HPSTART and i + 4 < n and all(words[i + k][1] == 0 for k in range(1, 5)):
            f = header_check(*[words[i + k][0] for k in range(1, 5)])
            f.update(kind="hp", at=i)
            ev.append(f)
            i += 5
            if i < n and words[i] == DPPSTART:
                at = i
                syms = unpack_words(words[i + 1:])
                # find the first K symbol: payload+crc are data symbols
                k = 0
                while k < len(syms) and syms[k][1] == 0:
                    k += 1
                body = bytes(b for b, _ in syms[:k])
                tail = syms[k:k + 4]
                used_syms = k + 4
                if tail == [(END, 1)] * 3 + [(EPF, 1)] and len(body) >= 4:
                    payload, crc = body[:-4], int.from_bytes(body[-4:], "little")
                    ev.append(dict(kind="dpp", at=at, payload=payload, crc_ok=crc == usb3_crc32(payload), end="END",
                                   pad=[s for s in syms[used_syms:used_syms + (-used_syms) % 4]]))
                elif tail == [(EDB, 1)] * 3 + [(EPF, 1)]:
                    ev.append(dict(kind="dpp", at=at, payload=body, crc_ok=False, end="EDB",
                                   pad=[s for s in syms[used_syms:used_syms + (-used_syms) % 4]]))
                else:
                    ev.append(dict(kind="dpp", at=at, payload=body, crc_ok=False, end="bad-framing", pad=[]))
                i += 1 + -(-used_syms // 4)
        elif w == IDLE:
            if ev and ev[-1]["kind"] == "idle":
                ev[-1]["n"] += 1
            else:
                ev.append(dict(kind="idle", at=i, n=1))
            i += 1
        else:
            ev.append(dict(kind="junk", at=i, raw=w))
            i += 1
    return ev


# ------------------------------------------------------------------ self-check against recorded traffic
_RECORDED_HEADERS = [
    # tests/test_usb3_receiver.py: "actual Link Management packet (seq #0)"
    (0x00000280, 0x00010004, 0x00000000, 0x10001845, 0),
    # tests/test_usb3_data.py: three recorded data packet headers
    (0x32000008, 0x00010000, 0x08000000, 0xE801A822, 1),
    (0x34000008, 0x00020000, 0x08000000, 0xD005A242, 5),
    (0x00000008, 0x00088000, 0x08000000, 0xA8023E0F, 2),
]
_RECORDED_DPP = [
    ([(0xF75C5C5C, 0xF), (0x000000FF, 0), (0xFDFDFDFF, 0b1110)], bytes([0xFF])),
    ([(0xF75C5C5C, 0xF), (0x2C98BBAA, 0), (0xFDFD4982, 0b1100)], bytes([0xAA, 0xBB])),   # ctrl as on the wire
    ([(0xF75C5C5C, 0xF), (0x001E0500, 0), (0x00000000, 0), (0x0EC69325, 0)], bytes([0, 5, 0x1E, 0, 0, 0, 0, 0])),
]


def _selfcheck():
    assert LCSTART == (0xF7FEFEFE, 0xF) and HPSTART == (0xF7FBFBFB, 0xF) and DPPSTART == (0xF75C5C5C, 0xF)
    assert DPPEND == (0xF7FDFDFD, 0xF) and (SKP, SDP, EDB, COM) == (0x3C, 0x5C, 0x7C, 0xBC)
    for dw0, dw1, dw2, dw3, seq in _RECORDED_HEADERS:
        f = header_check(dw0, dw1, dw2, dw3)
        assert f["crc16_ok"] and f["crc5_ok"] and f["seq"] == seq, (hex(dw3), f)
        assert header_dw3(dw0, dw1, dw2, seq, f["reserved"], f["hub_depth"], f["delayed"], f["deferred"]) == dw3
    # recorded payloads: our encoder reproduces the recorded words (up to the words the recording contains)
    for words, payload in _RECORDED_DPP:
        mine = dpp_words(payload)
        assert [w[0] for w in mine[:len(words)]] == [w[0] for w in words], (payload, mine, words)
    # CRC-32 vector of tests/test_usb3_crc.py (real capture from a flash drive, 18 bytes)
    assert usb3_crc32(words_to_bytes([0x03000112, 0x09000000, 0x520013FE, 0x02010100]) + b"\x03\x01") == 0x540AA487
    # every single-bit corruption of a header's CRC-protected part is detected (CRC property, guards the model)
    dw0, dw1, dw2, dw3, seq = _RECORDED_HEADERS[1]
    for b in range(32):
        assert not header_check(dw0 ^ (1 << b), dw1, dw2, dw3)["crc16_ok"]
        f = header_check(dw0, dw1, dw2, dw3 ^ (1 << b))
        assert not (f["crc16_ok"] and f["crc5_ok"])
    # link command round trip + rejection
    for cmd in range(16):
        for sub in range(16):
            d, c = lc_word(cmd, sub)
            assert lc_decode(d, c) == (cmd, sub)
            for b in range(32):
                assert lc_decode(d ^ (1 << b), c) is None
            assert lc_decode(d, 1) is None
    # parser round trip
    hw = header_words(*data_header_dw(5), seq=3) + dpp_words(bytes(range(5))) + [IDLE, IDLE] + lc_words(LCRD, 2)
    ev = parse_stream(hw)
    kinds = [e["kind"] for e in ev]
    assert kinds == ["hp", "dpp", "idle", "lc"], kinds
    assert ev[1]["payload"] == bytes(range(5)) and ev[1]["crc_ok"] and ev[1]["end"] == "END"
    assert ev[3]["command"] == LCRD and ev[3]["subtype"] == 2


_selfcheck()
