"""Bit-serial reference CRCs (independent of luna), as defined by the USB 2.0 / 3.2 specifications.

All USB CRCs: data shifted in LSB-first, register initialised to all ones, remainder inverted and
sent MSB-first (i.e. the check field, read as an LSB-first integer like the data, is the bit-reversed
inverted remainder).  ``crc_bits`` is the one definition; everything else is a wrapper.
"""
import zlib


def crc_bits(bits, poly, width, init=None):
    """MSB-first LFSR over an iterable of bits; returns the raw register (not inverted)."""
    mask = (1 << width) - 1
    reg = mask if init is None else init
    for b in bits:
        top = (reg >> (width - 1)) & 1
        reg = (reg << 1) & mask
        if top ^ (b & 1):
            reg ^= poly
    return reg


def _rev(v, width):
    return int(format(v, f"0{width}b")[::-1], 2)


def _lsb_bits(value, nbits):
    return [(value >> i) & 1 for i in range(nbits)]


def bytes_bits(data):
    for byte in data:
        for i in range(8):
            yield (byte >> i) & 1


# ---------------------------------------------------------------- USB2
def usb2_crc5(value11):
    """CRC5 check field (as it sits in bits 11..15 of the LSB-first token word) of an 11-bit value."""
    reg = crc_bits(_lsb_bits(value11, 11), 0x05, 5)
    return _rev(reg ^ 0x1F, 5)


def usb2_token_word(addr, endp):
    v = (addr & 0x7F) | ((endp & 0xF) << 7)
    return v | (usb2_crc5(v) << 11)


def usb2_crc16(data):
    """CRC16 check field as a 16-bit integer to be sent low byte first."""
    reg = crc_bits(bytes_bits(data), 0x8005, 16)
    return _rev(reg ^ 0xFFFF, 16)


def usb2_crc16_raw_reflected(data, state=0xFFFF):
    """Running (un-inverted) CRC16 register in the reflected convention (LSB = oldest), for step-wise checks."""
    for byte in data:
        state ^= byte
        for _ in range(8):
            state = (state >> 1) ^ 0xA001 if state & 1 else state >> 1
    return state


# ---------------------------------------------------------------- USB3
def usb3_crc5(value11):
    """Link command / link control word CRC-5 (x^5+x^2+1) over 11 LSB-first bits; field in bits 11..15."""
    return usb2_crc5(value11)


def usb3_crc16(data12):
    """Header packet CRC-16 (x^16+x^12+x^3+x+1 = 0x100B) over 12 header bytes."""
    reg = crc_bits(bytes_bits(data12), 0x100B, 16)
    return _rev(reg ^ 0xFFFF, 16)


def usb3_crc32(data):
    """Data packet payload CRC-32 (0x04C11DB7), identical to zlib.crc32."""
    reg = crc_bits(bytes_bits(data), 0x04C11DB7, 32)
    return _rev(reg ^ 0xFFFFFFFF, 32)


def _selfcheck():
    # USB2 canonical packets: SETUP/IN to address 0 endpoint 0 = xx 00 10 ; SOF frame 1 = A5 01 E8
    assert usb2_token_word(0, 0) == 0x1000, hex(usb2_token_word(0, 0))
    assert (1 | (usb2_crc5(1) << 11)) == 0xE801
    # canonical captures: GET_DESCRIPTOR setup payload -> DD 94 ; SET_ADDRESS(8) -> EB BC ; ZLP -> 00 00
    assert usb2_crc16(bytes([0x80, 0x06, 0x00, 0x01, 0x00, 0x00, 0x40, 0x00])) == 0x94DD
    assert usb2_crc16(bytes([0x00, 0x05, 0x08, 0x00, 0x00, 0x00, 0x00, 0x00])) == 0xBCEB
    assert usb2_crc16(b"") == 0x0000
    assert usb2_crc16_raw_reflected(bytes([0, 1, 2, 3])) ^ 0xFFFF == usb2_crc16(bytes([0, 1, 2, 3]))
    for d in (b"", b"\x00", b"123456789", bytes(range(40))):
        assert usb3_crc32(d) == zlib.crc32(d)


_selfcheck()
