"""C19 oracle: necessary conditions, computed from the *input* history, for every reset / suspend / high-speed
event the USB2 reset sequencer reports.  Independent of luna: encodings and times come from the USB 2.0 / UTMI
specifications and the property statement.

Encodings: line_state 0 = SE0, 1 = J (FS/HS), 2 = K (FS/HS); XcvrSelect/current_speed 0 = HS, 1 = FS, 2 = LS;
OpMode 0 = normal, 1 = non-driving, 2 = bit-stuff/NRZI disabled (chirp); TermSelect 0 = HS termination.
"""

from bisect import bisect_right

SE0, J, K = 0, 1, 2
HS, FS, LS = 0, 1, 2

# cycles at 60 MHz, from the statement: 2.5 us, 5 us, 200 us, 2.5 ms, 3 ms  (2 ms = device chirp, informative)
REAL = dict(us2p5=150, us5=300, us200=12000, ms1=60000, ms2=120000, ms2p5=150000, ms3=180000)
# the same table for the "scaled" sequencer subclass (all constants / 20, rounded up)
SCALED = dict(us2p5=8, us5=15, us200=600, ms1=3000, ms2=6000, ms2p5=7500, ms3=9000)


class Timeline:
    """Piecewise-constant signal given as change points [(cycle, value), ...] (first at cycle 0)."""

    def __init__(self, points, total):
        pts = []
        for c, v in points:
            if pts and pts[-1][0] == c:
                pts[-1] = (c, v)
            elif not pts or pts[-1][1] != v:
                pts.append((c, v))
        self.starts = [c for c, _ in pts]
        self.values = [v for _, v in pts]
        self.total = total

    def at(self, t):
        if t < 0:
            t = 0
        return self.values[bisect_right(self.starts, t) - 1]

    def run_at(self, t):
        """(start, end_exclusive, value) of the constant run containing cycle t."""
        i = bisect_right(self.starts, max(t, 0)) - 1
        end = self.starts[i + 1] if i + 1 < len(self.starts) else self.total
        return self.starts[i], end, self.values[i]

    def runs(self, lo, hi):
        """runs clipped to [lo, hi)."""
        out = []
        i = bisect_right(self.starts, max(lo, 0)) - 1
        while i < len(self.starts) and self.starts[i] < hi:
            s = max(self.starts[i], lo)
            e = min(self.starts[i + 1] if i + 1 < len(self.starts) else self.total, hi)
            if e > s:
                out.append((s, e, self.values[i]))
            i += 1
        return out

    def intervals(self, pred):
        out = []
        for i, v in enumerate(self.values):
            if pred(v):
                e = self.starts[i + 1] if i + 1 < len(self.starts) else self.total
                if out and out[-1][1] == self.starts[i]:
                    out[-1] = (out[-1][0], e)
                else:
                    out.append((self.starts[i], e))
        return out


def count_chirp_pairs(line, lo, hi, min_len):
    """Number of K-J pairs, every state lasting >= min_len cycles, in line-state history [lo, hi)."""
    pairs = 0
    want = K
    for s, e, v in line.runs(lo, hi):
        if v == want and e - s >= min_len:
            if want == J:
                pairs += 1
            want = J if want == K else K
    return pairs


def judge(T, ins, log, total):
    """T: time table; ins: dict name -> Timeline (line_state, vbus, disconnect, fs_only, ls_only, bus_busy);
    log: [(cycle, Out(bus_reset, suspended, speed, op_mode, term, txv))]; returns (verdict, labels) where verdict is
    None or (message, signature)."""
    line, vbus = ins["line_state"], ins["vbus"]
    pts = sorted(set(ins["fs_only"].starts + ins["ls_only"].starts))
    restricted = Timeline([(c, int(bool(ins["fs_only"].at(c) or ins["ls_only"].at(c)))) for c in pts], total)

    def out_tl(f):
        return Timeline([(c, f(o)) for c, o in log], total)

    hs_op = out_tl(lambda o: int(o.speed == HS and o.op_mode == 0 and o.term == 0))
    chirp_mode = out_tl(lambda o: int(o.op_mode == 2))
    chirping = out_tl(lambda o: int(o.op_mode == 2 and o.txv == 1))
    susp = out_tl(lambda o: o.suspended)
    speed = out_tl(lambda o: o.speed)
    reset = out_tl(lambda o: o.bus_reset)
    labels = set()

    hs_iv = hs_op.intervals(bool)
    susp_iv = susp.intervals(bool)

    def hs_context(t):
        """the device was operating at high speed within the last 200 us (+ margin) before t"""
        lo = t - T["us200"] - 8
        return any(a < t and b > lo for a, b in hs_iv)

    def left_hs_after_3ms_se0(t):
        """cycle in which high-speed operation last ended before t, if SE0 had persisted 3 ms by then (the
        reset/suspend discrimination path); None if high speed was left for another reason (restriction, VBUS)"""
        ends = [y for x, y in hs_iv if y <= t]
        if not ends:
            return None
        x = max(ends)
        for u in (x - 1, x - 2, x - 3):
            if u >= 0:
                rs, re_, rv = line.run_at(u)
                if rv == SE0 and u - rs + 1 >= T["ms3"] - 2:
                    return x
        return None

    def long_se0_before(t):
        """3 ms of continuous SE0 ending about 200 us before t (when the device left high-speed signalling)"""
        for du in range(0, 6):
            u = t - T["us200"] - du
            if u < 0:
                break
            rs, re_, rv = line.run_at(u)
            if rv == SE0 and u - rs + 1 >= T["ms3"] - 1:
                return True
        return False

    # ---- 1. bus_reset only while VBUS is absent or after enough SE0 --------------------------------------
    for a, b in reset.intervals(bool):
        checked = 0
        for s, e, v in vbus.runs(a, b):
            if not v:
                labels.add("reset-while-vbus-absent")
                continue
            for t in range(s, min(e, s + 2000)):
                checked += 1
                if hs_context(t) and left_hs_after_3ms_se0(t) is not None and \
                        abs(t - (left_hs_after_3ms_se0(t) + T["us200"])) <= 4:
                    # the device dropped high-speed signalling after 3 ms of SE0 and is now, 200 us later,
                    # telling a reset from a suspend
                    if not long_se0_before(t) or line.at(t) == J:
                        return (f"bus_reset in cycle {t} at high speed without 3 ms of SE0 followed by 200 us and a "
                                f"non-idle line (line state now {line.at(t)})", "reset-at-hs-without-3ms-se0"), labels
                    labels.add("reset-from-hs")
                    continue
                x3 = left_hs_after_3ms_se0(t) if hs_context(t) else None
                if x3 is not None and t < x3 + T["us200"] - 4:
                    uu = t if line.at(t) == SE0 else t - 1
                    rs, re_, rv = line.run_at(uu)
                    if rv == SE0 and rs < x3:
                        return (f"bus_reset in cycle {t}, only {t - x3} cycles after high-speed signalling was dropped "
                                f"in cycle {x3} (3 ms of SE0 must be followed by 200 us = {T['us200']} cycles)",
                                "reset-at-hs-before-200us"), labels
                # SE0 must have persisted for `need` cycles up to this cycle (or up to the previous one, when the
                # line leaves SE0 in the very cycle the reset is reported)
                u = t if line.at(t) == SE0 else t - 1
                rs, re_, rv = line.run_at(u)
                need = T["us2p5"] if (susp.at(t) or susp.at(t - 1)) else T["us5"]
                if rv != SE0 or u - rs + 1 < need:
                    have = (u - rs + 1) if rv == SE0 else 0
                    return (f"bus_reset in cycle {t} with VBUS present after only {have} cycles of continuous SE0 "
                            f"(needs {need}; suspended={susp.at(t)})",
                            "reset-without-enough-se0" + ("-suspended" if need == T["us2p5"] else "")), labels
                labels.add("reset-from-suspend" if need == T["us2p5"] else "reset-fs")

    # ---- 2. suspend only after 3 ms of continuous idle -------------------------------------------------------
    for a, b in susp_iv:
        if a == 0:
            return ("suspended at cycle 0", "suspend-without-3ms-idle"), labels
        if hs_context(a) and left_hs_after_3ms_se0(a) is not None:
            if not long_se0_before(a):
                return (f"suspend entered in cycle {a} from high speed without 3 ms of SE0 (HS idle)",
                        "suspend-without-3ms-idle-hs"), labels
            labels.add("suspend-from-hs")
        else:
            idle = J if speed.at(a - 1) == FS else K if speed.at(a - 1) == LS else SE0
            ok = False
            for t in (a - 1, a - 2):
                rs, re_, rv = line.run_at(t)
                if rv == idle and t - rs + 1 >= T["ms3"]:
                    ok = True
            if not ok:
                rs, re_, rv = line.run_at(a - 1)
                return (f"suspend entered in cycle {a} but the line had been idle (state {idle}) for only "
                        f"{(a - rs) if rv == idle else 0} cycles (needs {T['ms3']})", "suspend-without-3ms-idle"), labels
            labels.add("suspend-from-fs-ls")

    # ---- 3. high speed only after device chirp + >= 3 valid K-J pairs, or on resume from an HS suspend ----------
    for a, b in hs_iv:
        # resume?
        resumed = False
        for sa, sb in susp_iv:
            if sb in (a, a - 1, a - 2):
                if hs_context(sa) or any(x < sa and y > sa - T["us200"] - 8 for x, y in hs_iv):
                    resumed = True
                    labels.add("resume-to-hs")
                else:
                    return (f"high-speed operation entered in cycle {a} on resume from a suspend (cycle {sa}) that "
                            f"was not entered at high speed", "hs-on-resume-from-fs-suspend"), labels
        if resumed:
            continue
        ch = [(x, y) for x, y in chirping.intervals(bool) if y <= a]
        if not ch or any(x2 < a and y2 > ch[-1][1] for x2, y2 in hs_iv if (x2, y2) != (a, b)):
            return (f"high-speed operation entered in cycle {a} without the device having driven its chirp",
                    "hs-without-device-chirp"), labels
        x = ch[-1][0]
        # the chirp must belong to a bus reset: reset -> chirp mode -> (bus_busy hold-off <= 2 x 60 cycles) -> chirp
        if not any(ra < x and rb > x - 140 for ra, rb in reset.intervals(bool)):
            return (f"high-speed operation entered in cycle {a}; the device chirp (cycle {x}) was not preceded by a "
                    f"bus reset", "hs-without-reset"), labels
        c1 = ch[-1][1]
        pairs = count_chirp_pairs(line, c1, a, T["us2p5"])
        if pairs < 3:
            return (f"high-speed operation entered in cycle {a} after only {pairs} valid host K-J pairs (every state "
                    f">= {T['us2p5']} cycles) since the device chirp ended in cycle {c1}", "hs-without-3-chirp-pairs"), labels
        labels.add("hs-by-handshake")

    # ---- 4. the handshake never starts while restricted to full / low speed ----------------------------------
    for a, b in chirp_mode.intervals(bool):
        if a >= 3 and all(restricted.at(t) for t in (a - 3, a - 2, a - 1)):
            return (f"chirp mode entered in cycle {a} while restricted to full/low speed", "handshake-while-restricted"), labels

    # ---- 5. high speed left within two cycles of a restriction -----------------------------------------------------
    for a, b in hs_iv:
        for s, e, v in restricted.runs(a, b):
            if v:
                labels.add("restricted-while-hs")
                if e - s >= 3:
                    return (f"still operating at high speed in cycles {s}..{e-1} although restricted since cycle {s}",
                            "hs-not-left-after-restriction"), labels

    # ---- 6. fall back to full / low speed when the host chirp does not arrive in time ------------------------------
    for a, b in chirp_mode.intervals(bool):
        ch = [(x, y) for x, y in chirping.intervals(bool) if x >= a and y <= b]
        if not ch:
            if b - a > T["ms2p5"] + T["ms2"] + 200:
                return (f"chirp mode held from cycle {a} to {b} without chirping", "chirp-mode-stuck"), labels
            continue
        c1 = ch[-1][1]
        if c1 == b and b == total:
            continue                      # still chirping at the end of the simulation
        if b - c1 > T["ms2p5"] + 4:
            dl = c1 + T["ms2p5"]
            edge = [c for c in line.starts if dl - 1 <= c <= dl + 1 and line.at(c) in (J, K)]
            if edge:
                return (f"chirp-handshake timeout missed: the device chirp ended in cycle {c1}, the 2.5 ms deadline "
                        f"(cycle {dl}) coincided with a host chirp edge (line -> {line.at(edge[0])} in cycle {edge[0]}) "
                        f"and the handshake was still running in cycle {b-1}",
                        "fallback-timeout-missed-when-chirp-edge-coincides"), labels
            return (f"still in the chirp handshake in cycle {b-1}, {b-1-c1} cycles after the device chirp ended "
                    f"(cycle {c1}); must fall back after {T['ms2p5']}", "no-fallback-after-2p5ms"), labels
        if b < total:
            o_speed, o_hs = speed.at(b), hs_op.at(b)
            if not o_hs:
                # allow the one-cycle decision state before the outputs settle
                o2 = speed.at(min(b + 1, total - 1))
                if o_speed == HS and o2 == HS and not hs_op.at(min(b + 1, total - 1)):
                    return (f"left chirp mode in cycle {b} to neither high-speed operation nor full/low speed",
                            "bad-handshake-exit"), labels
                labels.add("fallback-to-fs")
    return None, labels
