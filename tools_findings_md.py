#!/venv/bin/python
import json
d = json.load(open("/verif/known_findings.json"))
rows = {}
for e in d["findings"]:
    key = (e.get("commit") or "-" + e["property"], e["status"])
    rows.setdefault(key, []).append(e)
out = ["# Genuine LUNA defects found by the checks\n",
       "Generated from known_findings.json by tools_findings_md.py. `fixed` = repaired in /repo by the named `fix:` commit "
       "(suppresses nothing; the replay under replays/<id>/ is run first in every quick tier). `known` = still present, "
       "suppressed only for cases whose failure signature matches.\n",
       "| property | status | commit | signatures | what failed |", "|---|---|---|---|---|"]
import subprocess
order = subprocess.run(["git", "-C", "/repo", "log", "--format=%h", "--reverse"], capture_output=True, text=True).stdout.split()
def k(item):
    c = item[0][0]
    return order.index(c) if c in order else 10**6
for (commit, status), es in sorted(rows.items(), key=k):
    props = sorted({e["property"] for e in es})
    sigs = ", ".join(sorted({e["signature"] for e in es}))
    out.append(f"| {' '.join(props)} | {status} | {commit if status == 'fixed' else '-'} | {sigs} | {es[0]['description']} |")
open("/verif/FINDINGS.md", "w").write("\n".join(out) + "\n")
print(len(rows), "root causes")
